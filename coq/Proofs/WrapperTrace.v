(* C07 (wrapper part): the lock discipline of the observable trace.
   Every payload window edge of the trace of any run happens while the acting thread holds the wrapper's mutex
   (exclusively for writes), and the mutex events form a valid lock history (Common/Lockset.v: trace_ok);
   hence no two conflicting accesses are unordered by happens-before (lockset_race_free). *)
From Coq Require Import List Arith ZArith Lia Bool.
Import ListNotations.
From GV Require Import Sched Events Lockset TraceActs WrapperModel WrapperProofs.
Local Open Scope Z_scope.

Definition MTX : nat := 1.                       (* = Z.to_nat O_MTX *)
Definition prot : nat -> nat := fun _ => MTX.    (* every location (the wrapped object, the temporaries) is protected by the mutex *)

(* the Lockset state agrees with the model's mutex *)
Definition Sim (g : glob) (st : Lockset.st) : Prop :=
  own st MTX = owner g /\
  forall u, count_occ Nat.eq_dec (shr st MTX) u = count_occ Nat.eq_dec (sharers g) u.   (* equal as multisets *)

Definition lines_of (t : nat) (es : list ev) : list line := map (ev_line t) es.
Definition acts (t : nat) (es : list ev) : list act := acts_of (lines_of t es).
Lemma acts_app t a b : acts t (a ++ b) = acts t a ++ acts t b.
Proof. unfold acts, lines_of. rewrite map_app. apply acts_of_app. Qed.
Lemma acts_cons t e r : acts t (e :: r) = acts_of_line (ev_line t e) ++ acts t r.
Proof. reflexivity. Qed.

(* events that are no lock / window events contribute nothing *)
Definition plain_kind (k : Z) : bool :=
  (k =? K_INVOKE) || (k =? K_RET) || (k =? K_CALL) || (k =? K_THROW) || (k =? K_CATCH) || (k =? K_FAULT).
Lemma acts_plain t e : plain_kind (ek e) = true -> acts_of_line (ev_line t e) = [].
Proof.
  unfold plain_kind, ev_line, acts_of_line. intros H.
  repeat (apply orb_true_iff in H; destruct H as [H|H]); apply Z.eqb_eq in H; rewrite H; reflexivity.
Qed.
Lemma acts_ret t v : acts t [ret_ev v] = []. Proof. reflexivity. Qed.
Lemma acts_catch t : acts t [catch_ev] = []. Proof. reflexivity. Qed.

Lemma acts_lock_ev t am sm v : (am = ABlock \/ v = 0 \/ v = 1) ->
  acts t [E (k_acq am sm) O_MTX v] =
  if (match am with ABlock => true | _ => v =? 1 end) then [if sm then AcqS t MTX else Acq t MTX] else [].
Proof.
  intros Hv. unfold acts, lines_of, acts_of.
  destruct am; destruct sm; cbn; rewrite ?Nat2Z.id; try reflexivity;
    destruct Hv as [Hv|[->| ->]]; try discriminate; cbn; rewrite ?Nat2Z.id; reflexivity.
Qed.
Lemma acts_unlock_ev t sm : acts t [E (k_rel sm) O_MTX 0] = [if sm then RelS t MTX else Rel t MTX].
Proof. unfold acts, lines_of, acts_of. destruct sm; cbn; rewrite ?Nat2Z.id; reflexivity. Qed.

Lemma acquire_ev am sm t c g g' ok e : acquire am sm t c g = Some (g', ok, e) ->
  e = E (k_acq am sm) O_MTX (match am with ABlock => 0 | _ => b2z ok end).
Proof.
  unfold acquire. destruct am; destruct (obtainable sm g); try destruct (Nat.eqb c 2); cbn; intros H; inversion H; reflexivity.
Qed.

(* ---------- the Lockset side of taking / releasing the mutex ---------- *)
Lemma count_zero_nil (l : list nat) : (forall u, count_occ Nat.eq_dec l u = 0%nat) -> l = [].
Proof.
  destruct l as [|x r]; [reflexivity|]. intros H. specialize (H x). cbn in H.
  destruct (Nat.eq_dec x x); [discriminate|congruence].
Qed.
Lemma count_occ_rm t l u :
  count_occ Nat.eq_dec (rm t l) u = if Nat.eqb u t then pred (count_occ Nat.eq_dec l t) else count_occ Nat.eq_dec l u.
Proof.
  induction l as [|x r IH]; cbn [rm count_occ].
  - destruct (Nat.eqb u t); reflexivity.
  - destruct (Nat.eqb_spec x t) as [Ext|Hne].
    + subst x. destruct (Nat.eq_dec t t) as [_|Hn]; [|congruence].
      destruct (Nat.eqb_spec u t) as [Eut|Hut]; [subst u; reflexivity|].
      destruct (Nat.eq_dec t u); [congruence|reflexivity].
    + cbn [count_occ]. rewrite IH. clear IH.
      destruct (Nat.eqb_spec u t) as [Eut|Hut].
      * subst u. destruct (Nat.eq_dec x t); [congruence|reflexivity].
      * reflexivity.
Qed.

Lemma sim_take sm t g st n : Sim g st -> obtainable sm g = true ->
  ok prot st (if sm then AcqS t MTX else Acq t MTX) /\
  Sim (set_nacq (take sm t g) n) (Lockset.step st (if sm then AcqS t MTX else Acq t MTX)).
Proof.
  intros [So Ss] Hob. unfold obtainable, free_s, free_x in Hob. destruct sm; cbn [ok Lockset.step].
  - destruct (owner g) eqn:Eo; [discriminate|]. split; [congruence|].
    split; cbn [own shr take set_nacq set_mutex owner sharers]; unfold fupd; rewrite ?Nat.eqb_refl; [congruence|].
    intros u. rewrite count_occ_app. cbn [count_occ]. rewrite Ss. destruct (Nat.eq_dec t u); lia.
  - destruct (owner g) eqn:Eo; [discriminate|]. destruct (sharers g) eqn:Es; [|discriminate]. split.
    + split; [congruence|]. apply count_zero_nil. intros u. rewrite Ss. reflexivity.
    + split; cbn [own shr take set_nacq set_mutex owner sharers]; unfold fupd; rewrite ?Nat.eqb_refl; [reflexivity|].
      rewrite Es. exact Ss.
Qed.
Lemma sim_drop sm t g st i : Sim g st ->
  (sm = false -> owner g = Some t) -> (sm = true -> In t (sharers g)) ->
  ok prot st (if sm then RelS t MTX else Rel t MTX) /\
  Sim (add_released (drop sm t g) i) (Lockset.step st (if sm then RelS t MTX else Rel t MTX)).
Proof.
  intros [So Ss] Hx Hs. destruct sm; cbn [ok Lockset.step].
  - pose proof (Hs eq_refl) as Hin. split.
    + apply (count_occ_In Nat.eq_dec). rewrite Ss. apply (count_occ_In Nat.eq_dec). exact Hin.
    + split; cbn [own shr drop add_released set_mutex owner sharers]; unfold fupd; rewrite ?Nat.eqb_refl; [exact So|].
      intros u. rewrite count_occ_rm, count_occ_remove1, !Ss. reflexivity.
  - split; [rewrite So; auto|].
    split; cbn [own shr drop add_released set_mutex owner sharers]; unfold fupd; rewrite ?Nat.eqb_refl; [reflexivity|exact Ss].
Qed.

(* ---------- window events ---------- *)
Definition rw_act (t : nat) (ro : bool) (a : act) : Prop :=
  (exists x, a = Rd t x) \/ (ro = false /\ exists x, a = Wr t x).
Lemma exec_mi_acts cf t i ph r ok g :
  Forall (rw_act t (ro_mi i)) (acts t (m_ev (exec_mi cf t i ph r ok g))).
Proof.
  unfold exec_mi, rd_begin, rd_end, wr_begin, wr_end, acts, lines_of, acts_of.
  destruct i as [fid snap| |[|b] s| |e d];
    [| destruct ph | destruct ph | destruct ph | destruct ph as [|[|[|ph]]] | destruct ph]; cbn [m_ev];
    try (destruct (existsb (Nat.eqb (calls g)) (throws cf))); try (destruct (dirty g)); try (destruct (Nat.ltb 0 (readers g)));
    cbn; rewrite ?Nat2Z.id;
    repeat (apply Forall_cons || apply Forall_nil); unfold rw_act; cbn [ro_mi];
    first [left; eexists; reflexivity | right; split; [reflexivity|eexists; reflexivity]].
Qed.
Lemma rw_trace_ok t ro tr : Forall (rw_act t ro) tr -> forall st,
  (own st MTX = Some t \/ (In t (shr st MTX) /\ ro = true)) ->
  trace_ok prot st tr /\ own (exec prot st tr) = own st /\ shr (exec prot st tr) = shr st.
Proof.
  induction 1 as [|a tr Ha Hr IH]; intros st Hc; cbn [trace_ok exec]; [auto|].
  assert (ok prot st a /\ own (Lockset.step st a) = own st /\ shr (Lockset.step st a) = shr st) as [Hok [Eo Es]].
  { destruct Ha as [[x ->]|[Hro [x ->]]]; cbn [ok Lockset.step own shr]; unfold prot.
    - split; [destruct Hc as [?|[? _]]; auto|auto].
    - split; [destruct Hc as [?|[_ ?]]; [assumption|congruence]|auto]. }
  destruct (IH (Lockset.step st a)) as [A [B C]]; [rewrite Eo, Es; exact Hc|].
  split; [split; assumption|]. rewrite B, C. auto.
Qed.

(* ---------- one tstep0 step, by pc ---------- *)
Lemma idle_step_acts cf t c g pr sl g' l' es :
  tstep0 cf t c g (Loc pr Idle sl) = Some (g', l', es) ->
  acts t es = [] /\ owner g' = owner g /\ sharers g' = sharers g.
Proof.
  intros Hs. step_cases Hs; cbn; auto.
Qed.

Lemma run_events cf t c g pr sl fr i rest ph r ok g' l' es :
  tstep0 cf t c g (Loc pr (Run fr (i :: rest) ph r ok) sl) = Some (g', l', es) ->
  acts t es = acts t (m_ev (exec_mi cf t i ph r ok g)).
Proof.
  unfold tstep0. cbn [at_ slots prog]. intros Hs.
  destruct (m_thrown _); [destruct fr; inversion Hs; subst; rewrite ?acts_app, ?acts_catch, ?app_nil_r; reflexivity|].
  destruct (negb (m_done _)); [inversion Hs; reflexivity|].
  destruct (match m_rest _ with Some c' => c' | None => rest end); destruct fr; inversion Hs; subst;
    rewrite ?acts_app, ?acts_ret, ?app_nil_r; reflexivity.
Qed.

Lemma holder_x cf g ls t l : Inv1 cf g ls -> nth_error ls t = Some l -> (1 <= lx cf l)%nat -> owner g = Some t.
Proof. intros H1 Hl Hx. apply own1_pos. rewrite <- (I_x _ _ _ H1 t), (locof_at _ _ _ Hl). exact Hx. Qed.
Lemma holder_s cf g ls t l : Inv1 cf g ls -> nth_error ls t = Some l -> (1 <= lsh cf l)%nat -> In t (sharers g).
Proof.
  intros H1 Hl Hs. apply (count_occ_In Nat.eq_dec). pose proof (I_s _ _ _ H1 t) as E.
  rewrite (locof_at _ _ _ Hl) in E. unfold shc in E. lia.
Qed.

Lemma step0_acts cf g ls t c l g' l' es st :
  Inv1 cf g ls -> Inv2 cf g ls -> safe cf g ->
  nth_error ls t = Some l -> tstep0 cf t c g l = Some (g', l', es) -> Sim g st ->
  trace_ok prot st (acts t es) /\ Sim g' (exec prot st (acts t es)).
Proof.
  intros H1 H2 Hsafe Hl Hs HS.
  destruct (I_ok _ _ _ H1 _ _ Hl) as [Hlen Hpc].
  destruct l as [pr p sl]. cbn [at_ slots] in Hpc.
  assert (Htake : forall am sm g1 okk e tailv, acquire am sm t c g = Some (g1, okk, e) ->
            acts t tailv = [] ->
            trace_ok prot st (acts t (e :: tailv)) /\ Sim g1 (exec prot st (acts t (e :: tailv)))).
  { intros am sm g1 okk e tailv Ha Htl. rewrite (acquire_ev _ _ _ _ _ _ _ _ Ha).
    change (acts t (E (k_acq am sm) O_MTX (match am with ABlock => 0 | _ => b2z okk end) :: tailv))
      with (acts t ([E (k_acq am sm) O_MTX (match am with ABlock => 0 | _ => b2z okk end)] ++ tailv)).
    rewrite acts_app, Htl, app_nil_r, acts_lock_ev by (destruct am; [left; reflexivity|destruct okk; auto|destruct okk; auto]).
    destruct okk.
    - destruct (acquire_true _ _ _ _ _ _ _ Ha) as [Hob ->].
      match goal with |- context [if ?cnd then [_] else []] => replace cnd with true by (destruct am; reflexivity) end.
      cbv beta iota. cbn [trace_ok exec].
      destruct (sim_take sm t g st (S (nacq g)) HS Hob) as [A B]. split; [split; [exact A|exact I]|exact B].
    - destruct (acquire_false _ _ _ _ _ _ _ Ha) as [Hob ->].
      assert (am <> ABlock) as Hnb by (intros ->; unfold acquire in Ha; rewrite Hob in Ha; discriminate).
      match goal with |- context [if ?cnd then [_] else []] => replace cnd with false by (destruct am; [congruence|reflexivity|reflexivity]) end.
      cbv beta iota. cbn [trace_ok exec]. auto. }
  assert (Hdrop : forall sm i g1 e tailv, release sm t i g = (g1, e) ->
            (sm = false -> (1 <= lx cf (Loc pr p sl))%nat) -> (sm = true -> (1 <= lsh cf (Loc pr p sl))%nat) -> acts t tailv = [] ->
            trace_ok prot st (acts t (e :: tailv)) /\ Sim g1 (exec prot st (acts t (e :: tailv)))).
  { intros sm i g1 e tailv Hr Hx Hsh Htl. rewrite (release_ev _ _ _ _ _ _ Hr), (release_eq _ _ _ _ _ _ Hr).
    change (acts t (E (k_rel sm) O_MTX 0 :: tailv)) with (acts t ([E (k_rel sm) O_MTX 0] ++ tailv)).
    rewrite acts_app, Htl, app_nil_r, acts_unlock_ev. cbn [trace_ok exec].
    destruct (sim_drop sm t g st i HS) as [A B].
    - intros E. eapply holder_x; eauto.
    - intros E. eapply holder_s; eauto.
    - split; [split; [exact A|exact I]|exact B]. }
  assert (Hsame : forall g1, owner g1 = owner g -> sharers g1 = sharers g -> Sim g1 st).
  { intros g1 Eo Es. destruct HS as [A B]. split; [rewrite Eo; exact A|rewrite Es; exact B]. }
  destruct p.
  - (* Idle *) destruct (idle_step_acts _ _ _ _ _ _ _ _ _ Hs) as [Ea [Eo Es]]. rewrite Ea. cbn. split; [exact I|auto].
  - (* HAcq *) unfold tstep0 in Hs. cbn [at_ slots prog] in Hs.
    destruct (acquire am (sh && shcap cf) t c g) as [[[g1 okk] e]|] eqn:Ha; [|discriminate].
    destruct (slot sl h) as [old|]; [destruct (hown old)|]; inversion Hs; subst;
      eapply Htake; eauto.
  - (* HRelOld *) destruct Hpc as [old [Ho Hw]]. unfold tstep0 in Hs. cbn [at_ slots prog] in Hs. rewrite Ho in Hs.
    destruct (release (hsh old && shcap cf) t (hid old) g) as [g1 e] eqn:Hr. inversion Hs; subst.
    pose proof (cnt_ge (hx cf) _ _ _ Ho) as Gx. pose proof (cnt_ge (hs cf) _ _ _ Ho) as Gs.
    unfold hx at 1 in Gx. unfold hs at 1 in Gs. rewrite Hw in Gx, Gs. cbn [andb] in Gx, Gs.
    eapply Hdrop; eauto; intros E; rewrite E in *; unfold lx, lsh; cbn [at_ slots b2n negb] in *; lia.
  - (* HRel *) destruct Hpc as [[old [Ho Hw]] _]. unfold tstep0 in Hs. cbn [at_ slots prog] in Hs. rewrite Ho in Hs.
    destruct (release (hsh old && shcap cf) t (hid old) g) as [g1 e] eqn:Hr. inversion Hs; subst.
    pose proof (cnt_ge (hx cf) _ _ _ Ho) as Gx. pose proof (cnt_ge (hs cf) _ _ _ Ho) as Gs.
    unfold hx at 1 in Gx. unfold hs at 1 in Gs. rewrite Hw in Gx, Gs. cbn [andb] in Gx, Gs.
    eapply Hdrop; eauto; intros E; rewrite E in *; unfold lx, lsh; cbn [at_ slots b2n negb] in *; lia.
  - (* GAcq *) unfold tstep0 in Hs. cbn [at_ slots prog] in Hs.
    destruct (wop_code cf o) as [[gsh code]|]; [|discriminate].
    destruct (acquire ABlock (gsh && shcap cf) t c g) as [[[g1 okk] e]|] eqn:Ha; [|discriminate].
    inversion Hs; subst. eapply Htake; eauto.
  - (* Run *) destruct code as [|i rest]; [discriminate|].
    rewrite (run_events _ _ _ _ _ _ _ _ _ _ _ _ _ _ _ Hs).
    pose proof (tstep0_run_glob _ _ _ _ _ _ _ _ _ _ _ _ _ _ _ Hs) as ->.
    pose proof (I_cov _ _ _ H2 Hsafe t) as Hc. rewrite (locof_at _ _ _ Hl) in Hc.
    destruct (rw_trace_ok t (ro_mi i) _ (exec_mi_acts cf t i ph r ok g) st) as [A [B C]].
    { destruct HS as [So Ss]. destruct (Hc _ _ _ _ _ eq_refl) as [Hx|[Hsh Hn]].
      - left. rewrite So. eapply holder_x; eauto. lia.
      - right. split; [|cbn in Hn; apply andb_true_iff in Hn; tauto].
        apply (count_occ_In Nat.eq_dec). rewrite Ss. apply (count_occ_In Nat.eq_dec). eapply holder_s; eauto. }
    split; [exact A|]. destruct (exec_mi_mutex cf t i ph r ok g) as [Eo Es]. destruct HS as [So Ss].
    split; [rewrite B, Eo; exact So|rewrite C, Es; exact Ss].
  - (* GRel *) unfold tstep0 in Hs. cbn [at_ slots prog] in Hs.
    destruct (wop_code cf o) as [[gsh code]|] eqn:Ew; [|discriminate].
    destruct (release (gsh && shcap cf) t gid g) as [g1 e] eqn:Hr. inversion Hs; subst.
    eapply Hdrop; eauto; try (destruct exn; reflexivity);
      intros E; unfold lx, lsh; cbn [at_ slots pcx pcs]; unfold gmode; rewrite Ew, E; cbn; lia.
Qed.

(* ---------- the invisible accesses of the plain kind contribute no observable action ---------- *)
Lemma vis_window_acts t e : vis_ev e = true ->
  (plain_kind (ek e) = true \/ ek e = K_RD_BEGIN \/ ek e = K_RD_END \/ ek e = K_WR_BEGIN \/ ek e = K_WR_END) ->
  acts_of_line (ev_line t e) = [].
Proof.
  intros Hv [Hp|Hw]; [apply acts_plain; exact Hp|]. exfalso. unfold vis_ev in Hv. apply negb_true_iff in Hv.
  destruct Hw as [E|[E|[E|E]]]; rewrite E in Hv; discriminate.
Qed.
Lemma exec_mi_kinds cf t i ph r ok g : Forall (fun e =>
  plain_kind (ek e) = true \/ ek e = K_RD_BEGIN \/ ek e = K_RD_END \/ ek e = K_WR_BEGIN \/ ek e = K_WR_END)
  (m_ev (exec_mi cf t i ph r ok g)).
Proof.
  unfold exec_mi, rd_begin, rd_end, wr_begin, wr_end.
  destruct i as [fid snap| |[|b] s| |e d];
    [| destruct ph | destruct ph | destruct ph | destruct ph as [|[|[|ph]]] | destruct ph]; cbn [m_ev];
    try (destruct (existsb (Nat.eqb (calls g)) (throws cf))); try (destruct (dirty g)); try (destruct (Nat.ltb 0 (readers g)));
    cbn; repeat (apply Forall_cons || apply Forall_nil); cbn; auto 6.
Qed.
Lemma filtered_acts t es : Forall (fun e =>
  plain_kind (ek e) = true \/ ek e = K_RD_BEGIN \/ ek e = K_RD_END \/ ek e = K_WR_BEGIN \/ ek e = K_WR_END) es ->
  acts t (filter vis_ev es) = [].
Proof.
  induction 1 as [|e es He Hes IH]; [reflexivity|]. cbn [filter]. destruct (vis_ev e) eqn:Ev; [|exact IH].
  rewrite acts_cons, IH, (vis_window_acts t e Ev He). reflexivity.
Qed.
Lemma run_step_kinds cf t c g pr sl fr i rest ph r ok g' l' es :
  tstep0 cf t c g (Loc pr (Run fr (i :: rest) ph r ok) sl) = Some (g', l', es) ->
  Forall (fun e => plain_kind (ek e) = true \/ ek e = K_RD_BEGIN \/ ek e = K_RD_END \/ ek e = K_WR_BEGIN \/ ek e = K_WR_END) es.
Proof.
  unfold tstep0. cbn [at_ slots prog]. intros Hs. pose proof (exec_mi_kinds cf t i ph r ok g) as Hk.
  assert (Ht : forall e, plain_kind (ek e) = true ->
             Forall (fun e => plain_kind (ek e) = true \/ ek e = K_RD_BEGIN \/ ek e = K_RD_END \/ ek e = K_WR_BEGIN \/ ek e = K_WR_END)
                 (m_ev (exec_mi cf t i ph r ok g) ++ [e])).
  { intros e He. apply Forall_app. split; [exact Hk|]. constructor; [left; exact He|constructor]. }
  destruct (m_thrown _); [destruct fr; inversion Hs; subst; [exact Hk|apply Ht; reflexivity]|].
  destruct (negb (m_done _)); [inversion Hs; subst; exact Hk|].
  destruct (match m_rest _ with Some c' => c' | None => rest end); destruct fr; inversion Hs; subst;
    first [exact Hk | apply Ht; reflexivity].
Qed.
Lemma settle_acts cf t fuel : forall g l es g2 l2 es2, settle cf t fuel g l es = (g2, l2, es2) ->
  acts t es2 = acts t es.
Proof.
  induction fuel as [|f IH]; intros g l es g2 l2 es2 Hs; cbn [settle] in Hs; [inversion Hs; reflexivity|].
  destruct (silent_pc (at_ l)) eqn:Es; [|inversion Hs; reflexivity].
  destruct (tstep0 cf t 0 g l) as [[[g' l'] es']|] eqn:E; [|inversion Hs; reflexivity].
  rewrite (IH _ _ _ _ _ _ Hs), acts_app.
  destruct (silent_pc_run _ Es) as [fr [code [ph [r [ok Hp]]]]]. destruct l as [pr p sl]. cbn [at_] in Hp. subst p.
  destruct code as [|i rest]; [discriminate|].
  rewrite (filtered_acts t es' (run_step_kinds _ _ _ _ _ _ _ _ _ _ _ _ _ _ _ E)). apply app_nil_r.
Qed.

(* one step of either kind *)
Lemma step_acts cf g ls t c l g' l' es st :
  Inv1 cf g ls -> Inv2 cf g ls -> safe cf g ->
  nth_error ls t = Some l -> tstep cf t c g l = Some (g', l', es) -> Sim g st ->
  trace_ok prot st (acts t es) /\ Sim g' (exec prot st (acts t es)).
Proof.
  intros H1 H2 Hsafe Hl Hs HS.
  destruct (tstep_inv _ _ _ _ _ _ Hs) as [g1 [l1 [es1 [E0 [Hn Hp]]]]].
  destruct (plain cf) eqn:Ep.
  - specialize (Hp eq_refl). symmetry in Hp.
    destruct (settle_mutex _ _ _ _ _ _ _ _ _ Hp) as [Eo Es].
    rewrite (settle_acts _ _ _ _ _ _ _ _ _ Hp).
    destruct (step0_acts cf g ls t c l g1 l1 es1 st H1 H2 Hsafe Hl E0 HS) as [A [So Ss]].
    split; [exact A|]. split; [rewrite Eo; exact So|rewrite Es; exact Ss].
  - injection (Hn (or_introl eq_refl)) as -> -> ->. eapply step0_acts; eauto.
Qed.

(* ---------- the whole trace ---------- *)
Lemma misuse_step0 cf t c g l g' l' es : tstep0 cf t c g l = Some (g', l', es) -> (misuse g <= misuse g')%nat.
Proof.
  intros Hs. destruct l as [pr p sl].
  destruct p; try (step_cases Hs; cbn; auto;
    try match goal with H : acquire _ _ _ _ _ = Some _ |- _ => destruct (acquire_obj _ _ _ _ _ _ _ _ H) as [_ [Em _]]; rewrite Em end;
    try match goal with H : release _ _ _ _ = _ |- _ => destruct (release_obj _ _ _ _ _ _ H) as [_ [Em _]]; rewrite Em end; lia).
  destruct code as [|i rest]; [discriminate|].
  rewrite (tstep0_run_glob _ _ _ _ _ _ _ _ _ _ _ _ _ _ _ Hs).
  unfold exec_mi, rd_begin, rd_end, wr_begin, wr_end.
  destruct i as [fid snap| |[|b] s| |e d];
    [| destruct ph | destruct ph | destruct ph | destruct ph as [|[|[|ph]]] | destruct ph]; cbn;
    try (destruct (existsb _ _); cbn); lia.
Qed.
Lemma misuse_step cf m0 : forall g (ls : list loc) t c l g' l' es,
  (m0 <= misuse g)%nat -> nth_error ls t = Some l -> tstep cf t c g l = Some (g', l', es) -> (m0 <= misuse g')%nat.
Proof.
  intros g ls t c l g' l' es H0 Hl Hs.
  apply (lift_step cf (fun g _ => (m0 <= misuse g)%nat)) with (g := g) (ls := ls) (t := t) (c := c) (l := l) (l' := l') (es := es); auto.
  intros g1 ls1 t1 c1 l1 g2 l2 es2 Hm _ Hst. pose proof (misuse_step0 _ _ _ _ _ _ _ _ Hst). lia.
Qed.
Lemma misuse_run cf sched : forall s, (misuse (gl s) <= misuse (gl (run glob loc (tstep cf) s sched)))%nat.
Proof.
  induction sched as [|[t c] r IH]; intros s; cbn [run fold_left]; [lia|].
  specialize (IH (Sched.step glob loc (tstep cf) s (t, c))). unfold run in IH.
  assert (misuse (gl s) <= misuse (gl (Sched.step glob loc (tstep cf) s (t, c))))%nat; [|lia].
  unfold Sched.step, sys_step. destruct (nth_error (thr s) t) as [l|] eqn:El; [|cbn; lia].
  destruct (tstep cf t c (gl s) l) as [[[g' l'] es]|] eqn:Es; [|cbn; lia]. cbn.
  eapply (misuse_step cf (misuse (gl s))); eauto.
Qed.

Lemma run_lines_acts cf progs : forall sched s st,
  R cf progs s -> safe cf (gl (run glob loc (tstep cf) s sched)) -> Sim (gl s) st ->
  trace_ok prot st (acts_of (snd (run_lines glob loc (tstep cf) s sched))).
Proof.
  induction sched as [|[t c] r IH]; intros s st HR Hsafe HS; cbn [run_lines]; [exact I|].
  assert (Hsafe0 : safe cf (gl s)).
  { destruct Hsafe as [Hlk Hm]. split; [exact Hlk|]. pose proof (misuse_run cf ((t, c) :: r) s). lia. }
  pose proof (R_step cf progs s (t, c) HR) as HR'.
  cbn [run fold_left] in Hsafe. fold (run glob loc (tstep cf) (Sched.step glob loc (tstep cf) s (t, c)) r) in Hsafe.
  unfold Sched.step in HR', Hsafe.
  destruct (sys_step glob loc (tstep cf) s (t, c)) as [s' o] eqn:E. cbn [fst] in HR', Hsafe.
  specialize (IH s'). destruct (run_lines glob loc (tstep cf) s' r) as [s'' ls] eqn:Er. cbn [snd] in *.
  rewrite acts_of_app. apply trace_ok_app.
  unfold sys_step in E. destruct (nth_error (thr s) t) as [l|] eqn:El.
  - destruct (tstep cf t c (gl s) l) as [[[g' l'] es]|] eqn:Est; inversion E; subst s' o; cbn [out_lines].
    + destruct (R_inv _ _ _ HR) as [H1 H2].
      destruct (step_acts cf _ _ t c l g' l' es st H1 H2 Hsafe0 El Est HS) as [A B].
      split; [exact A|]. apply IH; auto.
    + cbn. split; [exact I|]. apply IH; auto.
  - inversion E; subst s' o. cbn. split; [exact I|]. apply IH; auto.
Qed.

Lemma Sim_init cf progs : Sim (gl (init cf progs)) st0.
Proof. split; cbn; reflexivity. Qed.

(* the lock discipline of the observable trace of every run (both payload kinds, every flavour, mutex kind,
   throw plan, any number of handles per thread): with locking enabled and no client use of a moved-from handle,
   every payload window edge of the trace happens while the acting thread holds the wrapper's mutex - exclusively
   for writes - and the mutex events form a valid lock history *)
Theorem wr_trace_discipline cf progs sched :
  safe cf (gl (run glob loc (tstep cf) (init cf progs) sched)) ->
  trace_ok prot st0 (acts_of (snd (run_lines glob loc (tstep cf) (init cf progs) sched))).
Proof.
  intros Hs. apply (run_lines_acts cf progs sched (init cf progs) st0); auto.
  - apply reachable_refl.
  - apply Sim_init.
Qed.
(* hence no non-atomic access of the trace races with a previous conflicting one (happens-before, Lockset.v) *)
Corollary wr_hb_race_free cf progs sched :
  safe cf (gl (run glob loc (tstep cf) (init cf progs) sched)) ->
  ~ races st0 (acts_of (snd (run_lines glob loc (tstep cf) (init cf progs) sched))).
Proof. intros Hs. apply (lockset_race_free_init prot). apply wr_trace_discipline; assumption. Qed.
