(* Invariant, step lemma and the lemmas behind Properties_C04.v (and the cow parts of C14, C20). *)
From Coq Require Import List Arith ZArith Lia Bool.
Import ListNotations.
From GV Require Import Sched Events CowModel CowBase CowHeap.
Local Open Scope Z_scope.
Lemma sl_assign_races g x v :
  races (sl_assign g x v) =
  ((if Nat.eqb (refs (heap (incref g v) (cvid (cp g x)))) 1 then (if freed (heap (incref g v) (cvid (cp g x))) then 1 else 0) else 0) +
   races g)%nat.
Proof. unfold sl_assign. rewrite decref_races. destruct x; reflexivity. Qed.

(* real (observable) read windows on the two shared_ptr objects: between K_RD_BEGIN and K_RD_END of lock_shared's copy *)
Definition xrdo (x : bool) (l : loc) : nat := match at_ l with S_re => if Bool.eqb (rside l) x then 1 else 0 | _ => 0 end%nat.
Lemma xrdo_step t c g l g' l' es x :
  tstep t c g l = Some (g', l', es) ->
  xrd (cp g' x) + Z.of_nat (xrdo x l) = xrd (cp g x) + Z.of_nat (xrdo x l').
Proof.
  intros Hs. destruct l as [pr p ws ss xs s rcn rsd v lr lc tm ed ba nd].
  destruct p; step_cases Hs; unfold xrdo, ctr, rd_open, rd_close, wr_open, wr_close, srd_end, cp in *; cbn in *;
    autorewrite with cow; cbn; try lia.
  all: try (destruct x; bools; lia).
Qed.
Lemma xrdo_le_rdo x l : (xrdo x l <= rdo x l)%nat.
Proof. unfold xrdo, rdo. destruct (at_ l); cbn; try lia; destruct (Bool.eqb (rside l) x); lia. Qed.
(* the version a copy holds changes only by the writer's assignment to the copy readers are not directed to *)
Lemma copy_stable t c g l g' l' es x :
  tstep t c g l = Some (g', l', es) -> (ipc (at_ l) = true -> wok g l) ->
  cvid (cp g' x) = cvid (cp g x) \/ (gph g = PA /\ x = negb (rl g)).
Proof.
  intros Hs Hw. destruct l as [pr p ws ss xs s rcn rsd v lr lc tm ed ba nd].
  destruct p; step_cases Hs; unfold rd_open, rd_close, wr_open, wr_close, srd_end, cp, wok, oth in *; cbn in *;
    autorewrite with cow; cbn; auto.
  all: try (destruct x; bools; auto; fail).
  all: specialize (Hw eq_refl); destr_and.
  all: destruct x; destruct lr; destruct (rl g) eqn:Erl; cbn in *; try discriminate; auto.
Qed.

(* no payload fault, no use of a destroyed version, no race on the shared_ptr copies, no double destruction *)
Lemma nofault_step t c g l g' l' es :
  tstep t c g l = Some (g', l', es) -> lok l -> hinv g -> vis_ok g ->
  (owns l = true -> ook g l) -> (ipc (at_ l) = true -> wok g l) ->
  (forall sn, In (Some sn) (ssl l) -> (1 <= refs (heap g (sv sn)))%nat) ->
  (forall x, (1 <= refs (heap g (cvid (cp g x))))%nat) ->
  ((at_ l = W_ldr \/ (at_ l = W_d2 /\ ctr g (lcl l) = 0)) -> nrd (oth g) <= 0) ->
  ((at_ l = W_a1b \/ at_ l = W_a2b) -> xrd (oth g) <= 0) ->
  (at_ l = S_rb -> xwr (cp g (rside l)) = false) ->
  faults g' = faults g /\ races g' = races g.
Proof.
  intros Hs (Hn1 & Hn0 & Hk) Hi (Hv1 & Hv2 & Hv3) Hok Hw Hsn Hcp Hnr Hxr Hxw.
  assert (Hnf : forall v, (1 <= refs (heap g v))%nat -> freed (heap g v) = false /\ vdirty (heap g v) = false).
  { intros v Hr. split.
    - destruct (freed (heap g v)) eqn:E; [|reflexivity]. pose proof (H_freed _ Hi v E). lia.
    - apply (H_pub _ Hi), (H_refs _ Hi), Hr. }
  pose proof (Hcp true) as Hcp1. pose proof (Hcp false) as Hcp0.
  assert (Hcm : (1 <= refs (heap g (committed g)))%nat) by (rewrite <- Hv1; apply Hcp).
  destruct l as [pr p ws ss xs s rcn rsd cv0 lr lc tm ed ba nd]. set (PC := p).
  destruct p; step_cases Hs; unfold owns in *; cbn in Hk, Hn0, Hok, Hw, Hnr, Hxr, Hxw; try (split; reflexivity).
  all: try (specialize (Hn0 eq_refl)); try (specialize (Hw eq_refl)); try (specialize (Hok eq_refl)).
  all: try match goal with H : nth_error ?w _ = Some (Some ?h), Hok : hasw ?w = true -> _ |- _ =>
             specialize (Hok (In_hasw _ _ (nth_error_In _ _ H))); destruct Hok as (A & B & C);
             destruct (B _ (nth_error_In _ _ H)) as ((P1 & P2 & P3 & P4 & P5 & P6) & D1 & D2 & D3 & D4); cbn in D1, D2, D3, D4, P5, P6
           end.
  all: try (destruct Hok as (A & B & C); cbn in C; unfold pvok in C; destr_and; subst).
  all: repeat match goal with
              | H : nth_error _ _ = Some (Some ?sn) |- _ => pose proof (Hnf _ (Hsn _ (nth_error_In _ _ H))) as [? ?]; revert H
              end; intros.
  all: try match type of Hk with ex _ => destruct Hk as [sn0 [Hk Hk2]]; pose proof (Hnf _ (Hsn _ (nth_error_In _ _ Hk))) as [? ?]; subst end.
  all: try (destruct (Hnf _ Hcm) as [? ?]).
  all: destruct (Hnf _ Hcp1) as [? ?]; destruct (Hnf _ Hcp0) as [? ?].
  all: try congruence.
  all: try (specialize (Hnr (or_introl eq_refl))).
  all: try (specialize (Hxr (or_introl eq_refl))); try (specialize (Hxr (or_intror eq_refl))); try (specialize (Hxw eq_refl)).
  all: try match goal with H : (_ =? 0) = true |- _ => pose proof (proj1 (Z.eqb_eq _ _) H) as Hz0; try (specialize (Hnr (or_intror (conj eq_refl Hz0)))) end.
  all: unfold rd_open, rd_close, wr_open, wr_close, srd_end, cp, oth, wok in *; cbn in *; autorewrite with cow; cbn.
  all: rewrite ?sl_assign_races, ?decref_races, ?incref_heap; unfold fupd, cp; cbn.
  all: repeat match goal with
              | H : freed ?x = false |- context [freed ?x] => rewrite !H
              | H : vdirty ?x = _ |- context [vdirty ?x] => rewrite !H
              | H : vrd ?x = _ |- context [vrd ?x] => rewrite !H
              | H : wopen ?x = false |- context [wopen ?x] => rewrite !H
              | H : xwr ?x = false |- context [xwr ?x] => rewrite !H
              end.
  all: cbn.
  all: try (split; reflexivity).
  all: try (eqbs; cbn; try (destruct (rl g)); try (destruct lr); try (destruct rsd); cbn in *; destr_and;
            repeat match goal with
              | H : freed ?x = false |- context [freed ?x] => rewrite !H
              | H : wopen ?x = false |- context [wopen ?x] => rewrite !H
              | H : xwr ?x = false |- context [xwr ?x] => rewrite !H
              end; cbn;
            repeat match goal with |- context [(0 <? ?z)%Z] => destruct (Z.ltb_spec 0 z) end;
            split; solve [reflexivity | lia | exfalso; lia | congruence]).
Qed.

(* ---------- snapshots of the stepping thread ---------- *)
Lemma ssl_step t c g l g' l' es sn :
  tstep t c g l = Some (g', l', es) -> In (Some sn) (ssl l') ->
  In (Some sn) (ssl l) \/
  (at_ l = S_re /\ sn = Snap (cvid (cp g (rside l))) (need l) (content (heap g (cvid (cp g (rside l)))))).
Proof.
  intros Hs Hin. destruct l as [pr p ws ss xs s rcn rsd cv0 lr lc tm ed ba nd].
  destruct p; step_cases Hs; cbn in *; auto.
  all: apply In_upd in Hin; destruct Hin as [E|Hin]; auto; try discriminate.
  all: inversion E; subst; auto.
  all: left; eapply nth_error_In; eauto.
Qed.

(* a reader inside its window on copy [rside]: the version that copy holds is recent enough for it *)
Definition rvok (g : glob) (l : loc) : Prop :=
  match at_ l with
  | S_rb | S_re => (need l <= vseq (heap g (cvid (cp g (rside l)))))%nat
  | _ => True
  end.

Lemma snaps_step t c g l g' l' es :
  tstep t c g l = Some (g', l', es) -> hinv g -> rvok g l ->
  (is_we (at_ l) = true -> published (heap g (cv l)) = false) ->
  (forall sn, In (Some sn) (ssl l) -> snok g sn /\ published (heap g (sv sn)) = true) ->
  (forall x, (1 <= refs (heap g (cvid (cp g x))))%nat) ->
  forall sn, In (Some sn) (ssl l') -> snok g' sn.
Proof.
  intros Hs Hi Hrv Hwe Hold Hcp sn Hin.
  destruct (ssl_step _ _ _ _ _ _ _ _ Hs Hin) as [Ho|[Hp ->]].
  - destruct (Hold _ Ho) as [[S1 S2] Sp].
    destruct (pub_stable _ _ _ _ _ _ _ (sv sn) Hs Hi Hwe Sp) as (C1 & C2 & _). unfold snok. split; [congruence|lia].
  - assert (Sp : published (heap g (cvid (cp g (rside l)))) = true) by (apply (H_refs _ Hi), Hcp).
    destruct (pub_stable _ _ _ _ _ _ _ _ Hs Hi Hwe Sp) as (C1 & C2 & _).
    unfold snok. cbn. split; [exact C1|]. unfold rvok in Hrv. rewrite Hp in Hrv. lia.
Qed.

(* the guarantee of a reader window is established at the load of readingLeft and kept by every step *)
Lemma rvok_own t c g l g' l' es :
  tstep t c g l = Some (g', l', es) -> hinv g -> vis_ok g -> nok g l -> rvok g l -> rvok g' l'.
Proof.
  intros Hs Hi (Hv1 & _) Hn Hrv. destruct (H_com _ Hi) as (E1 & E2 & _).
  destruct l as [pr p ws ss xs s rcn rsd cv0 lr lc tm ed ba nd].
  destruct p; step_cases Hs; unfold rvok, nok, rd_open, srd_end, cp in *; cbn in *; autorewrite with cow; cbn; auto.
  all: try (destruct (rl g); cbn in *; rewrite Hv1; lia).
  all: try (destruct rsd; cbn in *; exact Hrv).
Qed.
Lemma rvok_other t c g l g' l' es (r : loc) :
  tstep t c g l = Some (g', l', es) -> hinv g -> (ipc (at_ l) = true -> wok g l) ->
  (is_we (at_ l) = true -> published (heap g (cv l)) = false) ->
  (forall x, (1 <= refs (heap g (cvid (cp g x))))%nat) ->
  (rwpc (at_ r) = true -> hok g r) -> rvok g r -> rvok g' r.
Proof.
  intros Hs Hi Hw Hwe Hcp Hk Hrv. unfold rvok in *.
  assert (Hr : rwpc (at_ r) = true -> (need r <= vseq (heap g (cvid (cp g (rside r)))))%nat ->
               (need r <= vseq (heap g' (cvid (cp g' (rside r)))))%nat).
  { intros Er Hle. specialize (Hk Er).
    assert (Sp : published (heap g (cvid (cp g (rside r)))) = true) by (apply (H_refs _ Hi), Hcp).
    destruct (pub_stable _ _ _ _ _ _ _ _ Hs Hi Hwe Sp) as (_ & C2 & _).
    destruct (copy_stable _ _ _ _ _ _ _ (rside r) Hs Hw) as [E|[Hpa Ex]].
    - rewrite E. lia.
    - exfalso. unfold hok in Hk. rewrite Hpa in Hk. rewrite Hk in Ex. destruct (rl g); discriminate. }
  destruct (at_ r); auto.
Qed.

(* ---------- sums over the thread list ---------- *)
Lemma sum_zero_all {A} (f : A -> nat) (l : list A) u x :
  list_sum (map f l) = O -> nth_error l u = Some x -> f x = O.
Proof.
  revert u; induction l as [|a r IH]; destruct u; cbn; intros H E; try discriminate.
  - inversion E; subst. unfold list_sum in H. cbn in H. lia.
  - apply (IH u); auto. unfold list_sum in *. cbn in H. lia.
Qed.
Lemma all_zero_sum {A} (f : A -> nat) (l : list A) :
  (forall u x, nth_error l u = Some x -> f x = O) -> list_sum (map f l) = O.
Proof.
  induction l as [|a r IH]; intros H; [reflexivity|].
  unfold list_sum in *. cbn. rewrite (H O a eq_refl). cbn. apply IH. intros u x E. apply (H (S u) x E).
Qed.
Lemma sum_ge {A} (f : A -> nat) (l : list A) u x : nth_error l u = Some x -> (f x <= list_sum (map f l))%nat.
Proof.
  revert u; induction l as [|a r IH]; destruct u; cbn; intros E; try discriminate.
  - inversion E; subst. unfold list_sum. cbn. lia.
  - specialize (IH _ E). unfold list_sum in *. cbn. lia.
Qed.

(* ---------- the invariant ---------- *)
Record Inv (g : glob) (ls : list loc) : Prop := {
  I_loc : forall u l, nth_error ls u = Some l -> lok l /\ nok g l;
  I_oown : forall u l, nth_error ls u = Some l -> owns l = true -> omtx g = Some u;
  I_oheld : forall a, omtx g = Some a -> exists l, nth_error ls a = Some l /\ owns l = true;
  I_iown : forall u l, nth_error ls u = Some l -> ipc (at_ l) = true -> imtx g = Some u;
  I_iheld : forall a, imtx g = Some a -> exists l, nth_error ls a = Some l /\ ipc (at_ l) = true;
  I_w : forall u l, nth_error ls u = Some l -> ipc (at_ l) = true -> wok g l;
  I_idle : imtx g = None -> idle_ok g;
  I_vis : vis_ok g;
  I_rw : forall u l, nth_error ls u = Some l -> rwpc (at_ l) = true -> hok g l;
  I_cnt : forall k, ctr g k = Z.of_nat (list_sum (map (reg k) ls));
  I_nrd : forall x, nrd (cp g x) = Z.of_nat (list_sum (map (rdo x) ls));
  I_xrd : forall x, xrd (cp g x) = Z.of_nat (list_sum (map (xrdo x) ls));
  I_rv : forall u l, nth_error ls u = Some l -> rvok g l;
  I_heap : hinv g;
  I_refs : forall v, refs (heap g v) = (cpc g v + list_sum (map (snc v) ls))%nat;
  I_ook : forall u l, nth_error ls u = Some l -> owns l = true -> ook g l;
  I_free : omtx g = None -> ncommit g = nret g;
  I_snap : forall u l sn, nth_error ls u = Some l -> In (Some sn) (ssl l) -> snok g sn;
  I_nofault : faults g = O /\ races g = O
}.

Section Derived.
  Variables (g : glob) (ls : list loc).
  Hypothesis HI : Inv g ls.

  Lemma copy_counted x : (1 <= refs (heap g (cvid (cp g x))))%nat.
  Proof. rewrite (I_refs _ _ HI). unfold cpc, cp. destruct x; rewrite Nat.eqb_refl; lia. Qed.
  Lemma snap_counted u l sn : nth_error ls u = Some l -> In (Some sn) (ssl l) -> (1 <= refs (heap g (sv sn)))%nat.
  Proof.
    intros Hl Hin. rewrite (I_refs _ _ HI). pose proof (sum_ge (snc (sv sn)) ls u l Hl) as H1.
    apply In_nth_error in Hin. destruct Hin as [i Hi]. pose proof (sw_pos _ _ _ Hi). unfold snc in *. lia.
  Qed.
  Lemma counted_pub v : (1 <= refs (heap g v))%nat -> published (heap g v) = true.
  Proof. apply (H_refs _ (I_heap _ _ HI)). Qed.
  Lemma refs_lower u l w : nth_error ls u = Some l -> (cpc g w + snc w l <= refs (heap g w))%nat.
  Proof. intros Hl. rewrite (I_refs _ _ HI). pose proof (sum_ge (snc w) ls u l Hl). lia. Qed.
  Lemma next_unused : refs (heap g (next g)) = O.
  Proof.
    destruct (refs (heap g (next g))) eqn:E; [reflexivity|exfalso].
    assert (H1 : (1 <= refs (heap g (next g)))%nat) by lia.
    pose proof (proj2 (H_pub _ (I_heap _ _ HI) _ (counted_pub _ H1))). lia.
  Qed.
  (* a counter at zero: no thread is registered in it *)
  Lemma not_registered k u l : ctr g k = 0 -> nth_error ls u = Some l -> rgpc (at_ l) = true -> rcnt l <> k.
  Proof.
    intros Hz Hl Hp. pose proof (I_cnt _ _ HI k) as E. rewrite Hz in E.
    assert (E0 : list_sum (map (reg k) ls) = O) by lia.
    pose proof (sum_zero_all _ _ _ _ E0 Hl) as E1. unfold reg in E1. rewrite Hp in E1. cbn in E1.
    intros <-. rewrite Bool.eqb_reflx in E1. discriminate.
  Qed.
  Lemma rwpc_rgpc p : rwpc p = true -> rgpc p = true.
  Proof. destruct p; cbn; congruence. Qed.
  (* when the writer assigns a copy, no reader window is open on it *)
  (* outside the flip .. second drain phases every reader window is on the copy readers are directed to *)
  Lemma nrd_other_pa : gph g = PA -> nrd (oth g) <= 0.
  Proof.
    intros Hph. unfold oth. rewrite (I_nrd _ _ HI).
    rewrite all_zero_sum; [cbn; lia|]. intros v lv Hv. unfold rdo.
    destruct (rwpc (at_ lv)) eqn:Er; [|reflexivity]. cbn.
    pose proof (I_rw _ _ HI _ _ Hv Er) as Hk. unfold hok in Hk. rewrite Hph in Hk. rewrite Hk.
    destruct (rl g); reflexivity.
  Qed.
  Lemma nrd_other t l : nth_error ls t = Some l ->
    (at_ l = W_ldr \/ (at_ l = W_d2 /\ ctr g (lcl l) = 0)) -> nrd (oth g) <= 0.
  Proof.
    intros Hl Hp.
    assert (Hh : ipc (at_ l) = true) by (destruct Hp as [->|[-> _]]; reflexivity).
    pose proof (I_w _ _ HI _ _ Hl Hh) as Hw. unfold wok in Hw.
    destruct Hp as [Hp|[Hp Hz]]; rewrite Hp in Hw.
    { destruct Hw as (Hph & _). apply nrd_other_pa; exact Hph. }
    unfold oth. rewrite (I_nrd _ _ HI).
    rewrite all_zero_sum; [cbn; lia|]. intros v lv Hv. unfold rdo.
    destruct (rwpc (at_ lv)) eqn:Er; [|reflexivity]. cbn.
    pose proof (I_rw _ _ HI _ _ Hv Er) as Hk. unfold hok in Hk.
    assert (Es : rside lv = rl g).
    { destruct Hw as (_ & Hph & _ & _ & _ & Hgl & _). rewrite Hph in Hk. destruct Hk as [Hk|Hk]; [exact Hk|exfalso].
      apply (not_registered _ _ _ Hz Hv (rwpc_rgpc _ Er)). congruence. }
    rewrite Es. destruct (rl g); reflexivity.
  Qed.
  (* the observable read windows are inside the registration windows *)
  Lemma xrd_le_nrd x : xrd (cp g x) <= nrd (cp g x).
  Proof.
    rewrite (I_xrd _ _ HI), (I_nrd _ _ HI).
    pose proof (sum_mono (xrdo x) (rdo x) ls (fun l _ => xrdo_le_rdo x l)). lia.
  Qed.
  Lemma xrd_other t l : nth_error ls t = Some l -> (at_ l = W_a1b \/ at_ l = W_a2b) -> xrd (oth g) <= 0.
  Proof.
    intros Hl Hp.
    assert (Hh : ipc (at_ l) = true) by (destruct Hp as [->| ->]; reflexivity).
    pose proof (I_w _ _ HI _ _ Hl Hh) as Hw. unfold wok in Hw.
    assert (Hph : gph g = PA) by (destruct Hp as [Hp|Hp]; rewrite Hp in Hw; tauto).
    pose proof (nrd_other_pa Hph). pose proof (xrd_le_nrd (negb (rl g))). unfold oth in *. lia.
  Qed.
  (* no write window is open on the shared_ptr object a reader is about to copy *)
  Lemma xwr_reader t l : nth_error ls t = Some l -> rwpc (at_ l) = true -> xwr (cp g (rside l)) = false.
  Proof.
    intros Hl Hp. pose proof (I_rw _ _ HI _ _ Hl Hp) as Hk. unfold hok in Hk.
    destruct (I_vis _ _ HI) as (_ & _ & V3).
    assert (Hoth : gph g <> PA -> xwr (oth g) = false).
    { intros Hne. destruct (imtx g) as [a|] eqn:Em.
      - destruct (I_iheld _ _ HI _ Em) as [la [Ha Hi]]. pose proof (I_w _ _ HI _ _ Ha Hi) as Hw. unfold wok in Hw.
        destruct (at_ la); try discriminate; destr_and; try congruence.
      - destruct (I_idle _ _ HI Em) as (E & _). congruence. }
    destruct (Bool.eqb (rside l) (rl g)) eqn:Eb.
    - apply eqb_prop in Eb. rewrite Eb. exact V3.
    - assert (Ex : rside l = negb (rl g)) by (destruct (rside l), (rl g); cbn in Eb; try discriminate; reflexivity).
      rewrite Ex. apply Hoth. intros Hpa. rewrite Hpa in Hk. rewrite Hk in Eb. rewrite Bool.eqb_reflx in Eb. discriminate.
  Qed.
End Derived.

Lemma nwhl_repeat n : nwhl (repeat None n) = O.
Proof. unfold nwhl. induction n; cbn; auto. Qed.
Lemma hasw_repeat n : hasw (repeat None n) = false.
Proof. apply hasw_false, nwhl_repeat. Qed.
Lemma snc_repeat v n : list_sum (map (sw v) (repeat None n)) = O.
Proof. induction n; cbn; auto. Qed.

Lemma Inv_init nw ns x pl progs : Inv (gl (init nw ns x pl progs)) (thr (init nw ns x pl progs)).
Proof.
  assert (P : forall u l, nth_error (map (init_loc nw ns) progs) u = Some l -> exists p, l = init_loc nw ns p).
  { intros u l H. rewrite nth_error_map in H. destruct (nth_error progs u); inversion H. eauto. }
  unfold init; cbn. constructor; cbn.
  - intros u l H. destruct (P _ _ H) as [p ->]. split; [|exact I]. unfold lok; cbn. rewrite nwhl_repeat. auto.
  - intros u l H Hh. destruct (P _ _ H) as [p ->]. unfold owns in Hh. cbn in Hh. rewrite hasw_repeat in Hh. discriminate.
  - discriminate.
  - intros u l H Hh. destruct (P _ _ H) as [p ->]. discriminate.
  - discriminate.
  - intros u l H Hh. destruct (P _ _ H) as [p ->]. discriminate.
  - intros _. repeat split.
  - repeat split.
  - intros u l H Hh. destruct (P _ _ H) as [p ->]. discriminate.
  - intros k. rewrite all_zero_sum; [destruct k; reflexivity|].
    intros u l H. destruct (P _ _ H) as [p ->]. reflexivity.
  - intros y. rewrite all_zero_sum; [destruct y; reflexivity|].
    intros u l H. destruct (P _ _ H) as [p ->]. reflexivity.
  - intros y. rewrite all_zero_sum; [destruct y; reflexivity|].
    intros u l H. destruct (P _ _ H) as [p ->]. reflexivity.
  - intros u l H. destruct (P _ _ H) as [p ->]. exact I.
  - constructor; cbn.
    + intros v. destruct v; discriminate.
    + intros v. destruct v; cbn; [reflexivity|lia].
    + intros v. destruct v; cbn; [intros _; split; [reflexivity|lia]|discriminate].
    + intros v. destruct v; cbn; lia.
    + repeat split; lia.
    + reflexivity.
  - intros v. rewrite all_zero_sum.
    + unfold cpc. cbn. destruct v; reflexivity.
    + intros u l H. destruct (P _ _ H) as [p ->]. unfold snc. cbn. apply snc_repeat.
  - intros u l H Hh. destruct (P _ _ H) as [p ->]. unfold owns in Hh. cbn in Hh. rewrite hasw_repeat in Hh. discriminate.
  - reflexivity.
  - intros u l sn H Hin. destruct (P _ _ H) as [p ->]. cbn in Hin. apply repeat_spec in Hin. discriminate.
  - split; reflexivity.
Qed.

Lemma nok_mono g g' l : (nret g <= nret g')%nat -> nok g l -> nok g' l.
Proof. unfold nok. destruct (at_ l); auto; lia. Qed.
Lemma hok_ext g l l' : rside l' = rside l -> rcnt l' = rcnt l -> hok g l -> hok g l'.
Proof. unfold hok. intros -> ->. auto. Qed.

Lemma Inv_step : forall g ls t c l g' l' es,
  Inv g ls -> nth_error ls t = Some l -> tstep t c g l = Some (g', l', es) -> Inv g' (upd ls t l').
Proof.
  intros g ls t c l g' l' es HI Hl Hs.
  destruct (I_loc _ _ HI _ _ Hl) as [Hk Hnk].
  assert (Ho : owns l = true -> omtx g = Some t) by (intros E; exact (I_oown _ _ HI _ _ Hl E)).
  destruct (local_step _ _ _ _ _ _ _ Hs Hk Ho) as (Hk' & O1 & O2 & O3 & O4).
  assert (Hm : ipc (at_ l) = true -> imtx g = Some t) by (intros E; exact (I_iown _ _ HI _ _ Hl E)).
  destruct (imtx_step _ _ _ _ _ _ _ Hs Hm) as (M1 & M2 & M3 & M4).
  assert (Hw : ipc (at_ l) = true -> wok g l) by (intros E; exact (I_w _ _ HI _ _ Hl E)).
  pose proof (I_vis _ _ HI) as Hv. pose proof (I_idle _ _ HI) as Hid. pose proof (I_heap _ _ HI) as Hh.
  assert (Hsn : forall sn, In (Some sn) (ssl l) -> (1 <= refs (heap g (sv sn)))%nat)
    by (intros sn Hin; eapply snap_counted; eauto).
  pose proof (copy_counted _ _ HI) as Hcp.
  assert (Hok : owns l = true -> ook g l) by (intros E; exact (I_ook _ _ HI _ _ Hl E)).
  assert (Hnh : ipc (at_ l) = false -> same_w g g') by (apply (nonholder_same _ _ _ _ _ _ _ Hs)).
  assert (Hhv : forall v, In (Some v) (wsl l) -> hvok g l v).
  { intros v Hin. assert (E : owns l = true) by (unfold owns; rewrite (In_hasw _ _ Hin); apply orb_true_r).
    destruct (Hok E) as (_ & B & _). auto. }
  pose proof (nret_mono _ _ _ _ _ _ _ Hs) as Hnm.
  assert (Hwe : is_we (at_ l) = true -> published (heap g (cv l)) = false).
  { intros E. destruct Hk as (_ & _ & Hk3).
    assert (Hn : nth_error (wsl l) (sl l) = Some (Some (cv l))) by (destruct (at_ l); try discriminate; exact Hk3).
    destruct (Hhv _ (nth_error_In _ _ Hn)) as ((_ & P2 & _) & _). exact P2. }
  destruct (ook_step _ _ _ _ _ _ _ Hs Hk Hk' Hh Hv Ho Hok (I_free _ _ HI) Hw Hsn Hcp) as [K1 K2].
  constructor.
  - (* local *)
    intros u lu Hu. apply nth_upd in Hu. destruct Hu as [(<- & -> & _)|(Hne & Hu)].
    + split; [exact Hk'|]. eapply nok_step; eauto.
    + destruct (I_loc _ _ HI _ _ Hu) as [A B]. split; [exact A|]. eapply nok_mono; eauto.
  - (* outer owner *)
    intros u lu Hu Hh1. apply nth_upd in Hu. destruct Hu as [(<- & -> & _)|(Hne & Hu)]; [auto|].
    pose proof (I_oown _ _ HI _ _ Hu Hh1) as Eu.
    destruct (owns l) eqn:E1; [specialize (Ho eq_refl); congruence|].
    destruct (owns l') eqn:E2; [specialize (O4 eq_refl eq_refl); congruence|].
    rewrite O3; auto.
  - (* outer held *)
    intros a Ha. destruct (Nat.eq_dec a t) as [->|Hne].
    + exists l'. split; [apply (nth_upd_eq _ _ _ _ Hl)|].
      destruct (owns l') eqn:E2; [reflexivity|exfalso].
      destruct (owns l) eqn:E1; [specialize (O2 eq_refl eq_refl); congruence|].
      rewrite O3 in Ha by reflexivity. destruct (I_oheld _ _ HI _ Ha) as [l0 [E0 Hh0]]. congruence.
    + rewrite nth_upd_ne by auto.
      destruct (owns l') eqn:E2; [specialize (O1 eq_refl); congruence|].
      destruct (owns l) eqn:E1; [specialize (O2 eq_refl eq_refl); congruence|].
      rewrite O3 in Ha by reflexivity. apply (I_oheld _ _ HI _ Ha).
  - (* inner owner *)
    intros u lu Hu Hh1. apply nth_upd in Hu. destruct Hu as [(<- & -> & _)|(Hne & Hu)]; [auto|].
    pose proof (I_iown _ _ HI _ _ Hu Hh1) as Eu.
    destruct (ipc (at_ l)) eqn:E1; [specialize (Hm eq_refl); congruence|].
    destruct (ipc (at_ l')) eqn:E2; [specialize (M4 eq_refl eq_refl); congruence|].
    rewrite M3; auto.
  - (* inner held *)
    intros a Ha. destruct (Nat.eq_dec a t) as [->|Hne].
    + exists l'. split; [apply (nth_upd_eq _ _ _ _ Hl)|].
      destruct (ipc (at_ l')) eqn:E2; [reflexivity|exfalso].
      destruct (ipc (at_ l)) eqn:E1; [specialize (M2 eq_refl eq_refl); congruence|].
      rewrite M3 in Ha by reflexivity. destruct (I_iheld _ _ HI _ Ha) as [l0 [E0 Hh0]]. congruence.
    + rewrite nth_upd_ne by auto.
      destruct (ipc (at_ l')) eqn:E2; [specialize (M1 eq_refl); congruence|].
      destruct (ipc (at_ l)) eqn:E1; [specialize (M2 eq_refl eq_refl); congruence|].
      rewrite M3 in Ha by reflexivity. apply (I_iheld _ _ HI _ Ha).
  - (* writer knowledge *)
    intros u lu Hu Hh1. apply nth_upd in Hu. destruct Hu as [(<- & -> & _)|(Hne & Hu)].
    + eapply wok_step; eauto.
    + pose proof (I_iown _ _ HI _ _ Hu Hh1) as Eu.
      destruct (ipc (at_ l)) eqn:E1; [specialize (Hm eq_refl); congruence|].
      apply (wok_same g g'); auto. apply (I_w _ _ HI _ _ Hu Hh1).
  - intros Hn. eapply idle_step; eauto.
  - eapply vis_step; eauto.
  - (* reader windows *)
    intros u lu Hu Hr. apply nth_upd in Hu. destruct Hu as [(<- & -> & _)|(Hne & Hu)].
    + destruct (rwpc (at_ l)) eqn:E0.
      * destruct (hok_own _ _ _ _ _ _ _ Hs E0 Hr) as (Sw & E1 & E2).
        apply (hok_ext _ l); auto. apply (hok_same g g'); auto. apply (I_rw _ _ HI _ _ Hl E0).
      * eapply hok_new; eauto.
    + eapply hok_step; eauto. apply (I_rw _ _ HI _ _ Hu Hr).
      intros k Hz. eapply not_registered; eauto. apply rwpc_rgpc; exact Hr.
  - (* reader counters *)
    intros k. pose proof (reg_step _ _ _ _ _ _ _ k Hs) as E.
    pose proof (sum_upd (reg k) ls t l l' Hl) as E2. pose proof (I_cnt _ _ HI k). lia.
  - (* open reader windows *)
    intros x. pose proof (rdo_step _ _ _ _ _ _ _ x Hs) as E.
    pose proof (sum_upd (rdo x) ls t l l' Hl) as E2. pose proof (I_nrd _ _ HI x). lia.
  - (* observable read windows on the two shared_ptr objects *)
    intros x. pose proof (xrdo_step _ _ _ _ _ _ _ x Hs) as E.
    pose proof (sum_upd (xrdo x) ls t l l' Hl) as E2. pose proof (I_xrd _ _ HI x). lia.
  - (* what a reader window guarantees *)
    intros u lu Hu. apply nth_upd in Hu. destruct Hu as [(<- & -> & _)|(Hne & Hu)].
    + eapply rvok_own; eauto. apply (I_rv _ _ HI _ _ Hl).
    + eapply rvok_other; eauto. intros Er. apply (I_rw _ _ HI _ _ Hu Er). apply (I_rv _ _ HI _ _ Hu).
  - (* versions *)
    eapply hinv_step; eauto.
    + intros [Hp|Hp].
      * assert (E : owns l = true) by (unfold owns; rewrite Hp; reflexivity).
        destruct (Hok E) as (_ & _ & C). rewrite Hp in C. cbn in C. destr_and. auto.
      * assert (E : ipc (at_ l) = true) by (rewrite Hp; reflexivity).
        pose proof (Hw E) as W. unfold wok in W. rewrite Hp in W. destruct W as (_ & _ & Ec & _).
        assert (H1 : (1 <= refs (heap g (cv l)))%nat) by (rewrite <- Ec; destruct Hv as [<- _]; apply Hcp).
        split; [|apply (H_refs _ Hh); exact H1].
        destruct (freed (heap g (cv l))) eqn:Ef; [|reflexivity]. pose proof (H_freed _ Hh _ Ef). lia.
    + intros Hp. assert (E : owns l = true) by (unfold owns; rewrite Hp; reflexivity).
      destruct (Hok E) as (_ & _ & C). rewrite Hp in C. cbn in C. destruct C as [C1 _]. apply (H_pub _ Hh _ C1).
    + intros Hp. assert (E : owns l = true) by (unfold owns; rewrite Hp; reflexivity).
      destruct (Hok E) as (_ & _ & C). rewrite Hp in C. cbn in C. destr_and. auto.
    + intros Hp. assert (E : owns l = true) by (unfold owns; rewrite Hp; reflexivity).
      destruct (Hok E) as (A & _). rewrite Hp in A. cbn in A. lia.
  - (* reference counts *)
    intros v. pose proof (refs_step _ _ _ _ _ _ _ v Hs Hk (fun w => refs_lower _ _ HI _ _ w Hl) (next_unused _ _ HI)) as E.
    pose proof (sum_upd (snc v) ls t l l' Hl) as E2. pose proof (I_refs _ _ HI v). lia.
  - (* owner knowledge *)
    intros u lu Hu Hh1. apply nth_upd in Hu. destruct Hu as [(<- & -> & _)|(Hne & Hu)]; [auto|].
    pose proof (I_oown _ _ HI _ _ Hu Hh1) as Eu.
    destruct (owns l) eqn:E1; [specialize (Ho eq_refl); congruence|].
    destruct (owns l') eqn:E2; [specialize (O4 eq_refl eq_refl); congruence|].
    apply (ook_frame g g' lu (nonowner_frame _ _ _ _ _ _ _ Hs Hk E1 E2 Hsn Hcp) Hh Hcp Hv (I_ook _ _ HI _ _ Hu Hh1)).
  - exact K2.
  - (* snapshots *)
    intros u lu sn Hu Hin. apply nth_upd in Hu. destruct Hu as [(<- & -> & _)|(Hne & Hu)].
    + eapply snaps_step; eauto. { apply (I_rv _ _ HI _ _ Hl). } intros sn0 Hin0. split; [apply (I_snap _ _ HI _ _ _ Hl Hin0)|].
      apply (H_refs _ Hh), Hsn, Hin0.
    + destruct (I_snap _ _ HI _ _ _ Hu Hin) as [S1 S2].
      assert (Sp : published (heap g (sv sn)) = true) by (eapply counted_pub; eauto; eapply snap_counted; eauto).
      destruct (pub_stable _ _ _ _ _ _ _ (sv sn) Hs Hh Hwe Sp) as (C1 & C2 & _). split; [congruence|lia].
  - (* faults *)
    destruct (I_nofault _ _ HI) as [F1 F2].
    destruct (nofault_step _ _ _ _ _ _ _ Hs Hk Hh Hv Hok Hw Hsn Hcp (nrd_other _ _ HI _ _ Hl) (xrd_other _ _ HI _ _ Hl)
                (fun E => xwr_reader _ _ HI _ _ Hl ltac:(rewrite E; reflexivity))) as [E1 E2].
    split; congruence.
Qed.

(* ---------- reachable states ---------- *)
Notation sysR := (sys glob loc).
Notation stepR := (step glob loc tstep).
Notation runR := (run glob loc tstep).
Notation enabledR := (enabled glob loc tstep).
Definition R (nw ns : nat) (x : Z) (pl : list Z) (progs : list (list op)) (s : sysR) : Prop :=
  reachable glob loc tstep (init nw ns x pl progs) s.

Lemma R_inv nw ns x pl progs s : R nw ns x pl progs s -> Inv (gl s) (thr s).
Proof. intros H. eapply reachable_inv; [apply Inv_step|apply Inv_init|exact H]. Qed.
Lemma R_step nw ns x pl progs s tc : R nw ns x pl progs s -> R nw ns x pl progs (stepR s tc).
Proof. apply reachable_step. Qed.
Lemma R_run nw ns x pl progs s sc : R nw ns x pl progs s -> R nw ns x pl progs (runR s sc).
Proof. intros H. eapply reachable_trans; [exact H|]. exists sc. reflexivity. Qed.

(* the thread about to close a write window works on its own unpublished version *)
Lemma we_private g ls t l : Inv g ls -> nth_error ls t = Some l -> is_we (at_ l) = true ->
  published (heap g (cv l)) = false.
Proof.
  intros HI Hl E. destruct (I_loc _ _ HI _ _ Hl) as [(_ & _ & Hk3) _].
  assert (Hn : nth_error (wsl l) (sl l) = Some (Some (cv l))) by (destruct (at_ l); try discriminate; exact Hk3).
  apply nth_error_In in Hn.
  assert (Eo : owns l = true) by (unfold owns; rewrite (In_hasw _ _ Hn); apply orb_true_r).
  destruct (I_ook _ _ HI _ _ Hl Eo) as (_ & B & _). destruct (B _ Hn) as ((_ & P2 & _) & _). exact P2.
Qed.

(* ---------- C04: snapshots ---------- *)
(* a published version never changes again, whatever anybody does afterwards *)
Lemma snapshot_immutable_step (s : sysR) tc v : Inv (gl s) (thr s) -> published (heap (gl s) v) = true ->
  content (heap (gl (stepR s tc)) v) = content (heap (gl s) v) /\ published (heap (gl (stepR s tc)) v) = true.
Proof.
  intros HI Hp. unfold step, sys_step. destruct tc as [t c].
  destruct (nth_error (thr s) t) as [l|] eqn:Hl; [|auto].
  destruct (tstep t c (gl s) l) as [[[g' l'] es]|] eqn:Hs; [|auto]. cbn.
  destruct (pub_stable _ _ _ _ _ _ _ v Hs (I_heap _ _ HI) (we_private _ _ _ _ HI Hl) Hp) as (A & _ & B). auto.
Qed.
Lemma snapshot_immutable nw ns x pl progs s sc v :
  R nw ns x pl progs s -> published (heap (gl s) v) = true ->
  content (heap (gl (runR s sc)) v) = content (heap (gl s) v) /\ published (heap (gl (runR s sc)) v) = true.
Proof.
  revert s. induction sc as [|tc sc IH]; intros s HR Hp; cbn [run fold_left]; [auto|].
  destruct (snapshot_immutable_step s tc v (R_inv _ _ _ _ _ _ HR) Hp) as [A B].
  destruct (IH _ (R_step _ _ _ _ _ _ tc HR) B) as [C D]. unfold run in *. split; [congruence|exact D].
Qed.

(* a held snapshot: its version is published, not destroyed, counted, still shows the content it had
   when it was taken, and is at least as recent as every release that had returned before the
   lock_shared was invoked *)
Lemma snapshot_valid nw ns x pl progs s t l sn :
  R nw ns x pl progs s -> nth_error (thr s) t = Some l -> In (Some sn) (ssl l) ->
  let y := heap (gl s) (sv sn) in
  freed y = false /\ published y = true /\ vdirty y = false /\ (1 <= refs y)%nat /\ content y = sval sn /\
  (sneed sn <= vseq y)%nat.
Proof.
  intros HR Hl Hin y. pose proof (R_inv _ _ _ _ _ _ HR) as HI. pose proof (I_heap _ _ HI) as Hh.
  pose proof (snap_counted _ _ HI _ _ _ Hl Hin) as H1. destruct (I_snap _ _ HI _ _ _ Hl Hin) as [S1 S2].
  pose proof (H_refs _ Hh _ H1) as Hp. destruct (H_pub _ Hh _ Hp) as [Hd _].
  repeat split; auto. destruct (freed y) eqn:E; [|reflexivity]. pose proof (H_freed _ Hh _ E). unfold y in *. lia.
Qed.

(* a read through a snapshot returns the value it had when it was taken, without a fault event *)
Lemma snapshot_read_returns nw ns x pl progs s t c l g' l' es :
  R nw ns x pl progs s -> nth_error (thr s) t = Some l -> at_ l = SR_re ->
  tstep t c (gl s) l = Some (g', l', es) ->
  exists sn, nth_error (ssl l) (sl l) = Some (Some sn) /\
             es = [E K_RD_END (O_V (sv sn)) (sval sn); ret_ev (sval sn)].
Proof.
  intros HR Hl Hp Hs. pose proof (R_inv _ _ _ _ _ _ HR) as HI.
  destruct (I_loc _ _ HI _ _ Hl) as [(_ & _ & Hk) _]. rewrite Hp in Hk. destruct Hk as [sn [Hk Hc]].
  exists sn. split; [exact Hk|].
  destruct (snapshot_valid _ _ _ _ _ _ _ _ _ HR Hl (nth_error_In _ _ Hk)) as (_ & _ & Hd & _ & Hv & _).
  unfold tstep in Hs. rewrite Hp in Hs. unfold rd_end in Hs. rewrite <- Hc in *. rewrite Hd, Hv in Hs. cbn in Hs.
  inversion Hs. reflexivity.
Qed.

(* ---------- C04: writers ---------- *)
Lemma handle_owner nw ns x pl progs s u lu a :
  R nw ns x pl progs s -> nth_error (thr s) u = Some lu -> In (Some a) (wsl lu) -> omtx (gl s) = Some u.
Proof.
  intros HR Hu Ha. apply (I_oown _ _ (R_inv _ _ _ _ _ _ HR) _ _ Hu).
  unfold owns. rewrite (In_hasw _ _ Ha). apply orb_true_r.
Qed.
(* at most one write handle is live, and its thread owns the outer mutex *)
Lemma writers_serial nw ns x pl progs s u lu a w lw b :
  R nw ns x pl progs s -> nth_error (thr s) u = Some lu -> In (Some a) (wsl lu) ->
  nth_error (thr s) w = Some lw -> In (Some b) (wsl lw) ->
  u = w /\ a = b /\ omtx (gl s) = Some u.
Proof.
  intros HR Hu Ha Hw Hb. pose proof (handle_owner _ _ _ _ _ _ _ _ _ HR Hu Ha) as E1.
  pose proof (handle_owner _ _ _ _ _ _ _ _ _ HR Hw Hb) as E2.
  assert (u = w) by congruence. subst w. assert (lw = lu) by congruence. subst lw.
  repeat split; auto.
  destruct (I_loc _ _ (R_inv _ _ _ _ _ _ HR) _ _ Hu) as [(Hn1 & _) _].
  apply In_nth_error in Ha. destruct Ha as [i Hi]. symmetry. eapply nwhl_one_unique; eauto.
Qed.
(* while a thread is between lock() and the end of its release / cancel, nobody else is *)
Lemma writer_section_exclusive nw ns x pl progs s u lu w lw :
  R nw ns x pl progs s -> nth_error (thr s) u = Some lu -> nth_error (thr s) w = Some lw ->
  owns lu = true -> owns lw = true -> u = w.
Proof.
  intros HR Hu Hw Eu Ew. pose proof (R_inv _ _ _ _ _ _ HR) as HI.
  pose proof (I_oown _ _ HI _ _ Hu Eu). pose proof (I_oown _ _ HI _ _ Hw Ew). congruence.
Qed.

(* a live write handle: its private copy is unpublished, alive, unshared; it was made from the version
   that is (still) the committed one, and differs from it exactly by the handle's own edits *)
Lemma base_latest nw ns x pl progs s u l v :
  R nw ns x pl progs s -> nth_error (thr s) u = Some l -> In (Some v) (wsl l) ->
  let g := gl s in
  cbase l = committed g /\ published (heap g v) = false /\ freed (heap g v) = false /\ refs (heap g v) = O /\
  content (heap g v) = apply_edits (content (heap g (committed g))) (ced l).
Proof.
  intros HR Hl Hin g. pose proof (R_inv _ _ _ _ _ _ HR) as HI.
  assert (Eo : owns l = true) by (unfold owns; rewrite (In_hasw _ _ Hin); apply orb_true_r).
  destruct (I_ook _ _ HI _ _ Hl Eo) as (_ & B & _). destruct (B _ Hin) as ((P1 & P2 & P3 & P4 & P5 & P6) & _).
  repeat split; auto.
Qed.
(* lock() returns a copy of the committed content, with no edits yet *)
Lemma lock_returns_copy nw ns x pl progs s t c l g' l' es :
  R nw ns x pl progs s -> nth_error (thr s) t = Some l -> at_ l = L_dec ->
  tstep t c (gl s) l = Some (g', l', es) ->
  nth_error (wsl l') (sl l) = Some (Some (cv l)) /\ ced l' = [] /\ cbase l' = committed g' /\
  content (heap g' (cv l)) = content (heap g' (committed g')) /\ committed g' = committed (gl s) /\ In (ret_ev 0) es.
Proof.
  intros HR Hl Hp Hs. pose proof (R_inv _ _ _ _ _ _ HR) as HI.
  destruct (I_loc _ _ HI _ _ Hl) as [(_ & _ & Hk) _]. rewrite Hp in Hk.
  assert (Eo : owns l = true) by (unfold owns; rewrite Hp; reflexivity).
  destruct (I_ook _ _ HI _ _ Hl Eo) as (_ & _ & C). rewrite Hp in C.
  destruct C as ((P1 & P2 & P3 & P4 & P5 & P6) & _ & _ & C4).
  unfold tstep in Hs. rewrite Hp in Hs. inversion Hs; subst. cbn.
  repeat split; auto; try (rewrite C4 in P6; exact P6). apply (nth_upd_eq _ _ _ _ Hk).
Qed.

Lemma committed_tstep t c g l g' l' es : tstep t c g l = Some (g', l', es) ->
  (committed g' = committed g /\ applied g' = applied g /\ ncommit g' = ncommit g) \/
  (at_ l = W_str /\ committed g' = cv l /\ applied g' = applied g ++ ced l /\ ncommit g' = S (ncommit g)).
Proof.
  intros Hs. destruct l as [pr p ws ss xs s rcn rsd cv0 lr lc tm ed ba nd].
  destruct p; step_cases Hs; unfold rd_open, rd_close, wr_open, wr_close, srd_end; cbn; autorewrite with cow; cbn; auto.
Qed.
(* as long as a write handle is live the committed version does not change *)
Lemma base_stable nw ns x pl progs s u l v tc :
  R nw ns x pl progs s -> nth_error (thr s) u = Some l -> In (Some v) (wsl l) ->
  committed (gl (stepR s tc)) = committed (gl s).
Proof.
  intros HR Hl Hin. pose proof (R_inv _ _ _ _ _ _ HR) as HI. unfold step, sys_step. destruct tc as [t c].
  destruct (nth_error (thr s) t) as [lt|] eqn:Ht; [|reflexivity].
  destruct (tstep t c (gl s) lt) as [[[g' l'] es]|] eqn:Hs; [|reflexivity]. cbn.
  destruct (committed_tstep _ _ _ _ _ _ _ Hs) as [(E & _)|(Hp & _)]; [exact E|exfalso].
  assert (Eo : owns lt = true) by (unfold owns; rewrite Hp; reflexivity).
  pose proof (I_oown _ _ HI _ _ Ht Eo). pose proof (handle_owner _ _ _ _ _ _ _ _ _ HR Hl Hin).
  assert (t = u) by congruence. subst t. assert (lt = l) by congruence. subst lt.
  destruct (I_loc _ _ HI _ _ Hl) as [(_ & Hn0 & _) _]. rewrite Hp in Hn0. specialize (Hn0 eq_refl).
  apply (nwhl_zero_noin _ _ Hn0 Hin).
Qed.

(* ---------- C04: no lost update ---------- *)
(* second layer: the committed content is the fold of the committed handles' edits *)
Definition nlu (x : Z) (g : glob) : Prop :=
  initv g = x /\ content (heap g (committed g)) = apply_edits x (applied g).
Lemma nlu_step x t c g ls l g' l' es :
  Inv g ls -> nth_error ls t = Some l -> tstep t c g l = Some (g', l', es) -> nlu x g -> nlu x g'.
Proof.
  intros HI Hl Hs [N1 N2]. pose proof (I_heap _ _ HI) as Hh. destruct (I_vis _ _ HI) as [Hv1 _].
  assert (Sp : published (heap g (committed g)) = true) by (rewrite <- Hv1; apply (H_refs _ Hh), (copy_counted _ _ HI)).
  destruct (pub_stable _ _ _ _ _ _ _ (committed g) Hs Hh (we_private _ _ _ _ HI Hl) Sp) as (C1 & _).
  assert (Ei : initv g' = initv g).
  { clear - Hs. destruct l as [pr p ws ss xs s rcn rsd cv0 lr lc tm ed ba nd].
    destruct p; step_cases Hs; unfold rd_open, rd_close, wr_open, wr_close, srd_end; cbn; autorewrite with cow; cbn; auto. }
  split; [congruence|].
  destruct (committed_tstep _ _ _ _ _ _ _ Hs) as [(E1 & E2 & _)|(Hp & E1 & E2 & _)].
  - rewrite E1, E2, C1. exact N2.
  - assert (Eo : owns l = true) by (unfold owns; rewrite Hp; reflexivity).
    destruct (I_ook _ _ HI _ _ Hl Eo) as (_ & _ & C). rewrite Hp in C. destruct C as [Cp Cc].
    destruct (pub_stable _ _ _ _ _ _ _ (cv l) Hs Hh (we_private _ _ _ _ HI Hl) Cp) as (C2 & _).
    rewrite E1, E2, C2, Cc, N2. symmetry. apply apply_edits_app.
Qed.
Lemma no_lost_update nw ns x pl progs s :
  R nw ns x pl progs s ->
  content (heap (gl s) (committed (gl s))) = apply_edits x (applied (gl s)).
Proof.
  intros [sc ->]. 
  assert (H : forall sc s, Inv (gl s) (thr s) -> nlu x (gl s) -> nlu x (gl (runR s sc))).
  { clear. induction sc as [|tc sc IH]; intros s HI Hn; cbn [run fold_left]; [exact Hn|].
    apply IH.
    - apply (step_inv glob loc tstep Inv Inv_step); exact HI.
    - unfold step, sys_step. destruct tc as [t c]. destruct (nth_error (thr s) t) as [l|] eqn:Hl; [|exact Hn].
      destruct (tstep t c (gl s) l) as [[[g' l'] es]|] eqn:Hs; [|exact Hn]. cbn. eapply nlu_step; eauto. }
  apply (H sc (init nw ns x pl progs)); [apply Inv_init|]. split; reflexivity.
Qed.
(* commits happen one at a time, by the owner of both mutexes, appending exactly that handle's edits;
   nothing else (in particular no cancel) ever changes the committed version or the applied edits *)
Lemma commit_in_mutex_order nw ns x pl progs s t c l g' l' es :
  R nw ns x pl progs s -> nth_error (thr s) t = Some l -> tstep t c (gl s) l = Some (g', l', es) ->
  (committed g' = committed (gl s) /\ applied g' = applied (gl s)) \/
  (at_ l = W_str /\ omtx (gl s) = Some t /\ imtx (gl s) = Some t /\ committed g' = cv l /\
   applied g' = applied (gl s) ++ ced l /\
   content (heap (gl s) (cv l)) = apply_edits (content (heap (gl s) (committed (gl s)))) (ced l)).
Proof.
  intros HR Hl Hs. pose proof (R_inv _ _ _ _ _ _ HR) as HI.
  destruct (committed_tstep _ _ _ _ _ _ _ Hs) as [(E1 & E2 & _)|(Hp & E1 & E2 & _)]; [left; auto|right].
  assert (Eo : owns l = true) by (unfold owns; rewrite Hp; reflexivity).
  assert (Ei : ipc (at_ l) = true) by (rewrite Hp; reflexivity).
  destruct (I_ook _ _ HI _ _ Hl Eo) as (_ & _ & C). rewrite Hp in C. destruct C as [Cp Cc].
  repeat split; auto. apply (I_oown _ _ HI _ _ Hl Eo). apply (I_iown _ _ HI _ _ Hl Ei).
Qed.
(* with the inner mutex free both copies hold the committed version *)
Lemma copies_committed_when_idle nw ns x pl progs s :
  R nw ns x pl progs s -> imtx (gl s) = None ->
  cvid (cleft (gl s)) = committed (gl s) /\ cvid (cright (gl s)) = committed (gl s).
Proof.
  intros HR Hm. pose proof (R_inv _ _ _ _ _ _ HR) as HI.
  destruct (I_idle _ _ HI Hm) as (_ & D & _). destruct (I_vis _ _ HI) as [L2 _].
  unfold oth, cp in *. destruct (rl (gl s)); cbn in *; auto.
Qed.

(* ---------- C04: publication ---------- *)
(* a lock_shared records, when it is invoked, how many releases have returned *)
Lemma lock_shared_records t c g l g' l' es k s0 r :
  at_ l = Idle -> prog l = LockShared k s0 :: r -> nth_error (ssl l) s0 = Some None ->
  tstep t c g l = Some (g', l', es) -> at_ l' = S_ldc /\ need l' = nret g /\ g' = g.
Proof.
  intros Hp Hpr Hn Hs. unfold tstep in Hs. rewrite Hp, Hpr, Hn in Hs. inversion Hs. cbn. auto.
Qed.
(* when a release is about to return, it is commit number nret+1 and the committed version is its own *)
Lemma release_returns nw ns x pl progs s t l :
  R nw ns x pl progs s -> nth_error (thr s) t = Some l -> at_ l = W_ounlock ->
  committed (gl s) = cv l /\ vseq (heap (gl s) (cv l)) = ncommit (gl s) /\ ncommit (gl s) = S (nret (gl s)).
Proof.
  intros HR Hl Hp. pose proof (R_inv _ _ _ _ _ _ HR) as HI.
  assert (Eo : owns l = true) by (unfold owns; rewrite Hp; reflexivity).
  destruct (I_ook _ _ HI _ _ Hl Eo) as (A & _ & C). rewrite Hp in A, C. cbn in A.
  destruct (H_com _ (I_heap _ _ HI)) as (E1 & _). rewrite <- C. repeat split; auto. lia.
Qed.
(* ... and the step that returns makes it release number nret+1 *)
Lemma release_return_step t c g l g' l' es :
  at_ l = W_ounlock -> tstep t c g l = Some (g', l', es) ->
  nret g' = S (nret g) /\ omtx g' = None /\ at_ l' = Idle /\ es = [E K_UNLOCK O_OM 0; ret_ev 0] /\ heap g' = heap g /\
  committed g' = committed g.
Proof. intros Hp Hs. unfold tstep in Hs. rewrite Hp in Hs. inversion Hs. cbn. repeat split; reflexivity. Qed.
(* a held snapshot is at least as recent as the commit of every release that had returned when its
   lock_shared was invoked: commit number >= sneed = nret at invocation *)
Lemma publish_atomic nw ns x pl progs s t l sn :
  R nw ns x pl progs s -> nth_error (thr s) t = Some l -> In (Some sn) (ssl l) ->
  (sneed sn <= vseq (heap (gl s) (sv sn)))%nat /\ (vseq (heap (gl s) (sv sn)) <= ncommit (gl s))%nat.
Proof.
  intros HR Hl Hin. pose proof (R_inv _ _ _ _ _ _ HR) as HI.
  destruct (I_snap _ _ HI _ _ _ Hl Hin) as [_ S2]. split; [exact S2|apply (H_seq _ (I_heap _ _ HI))].
Qed.
(* the snapshot taken by a lock_shared is the version held by the copy it was directed to at its load of
   readingLeft (the committed version of that moment, or - if a commit flips readingLeft while the reader is inside
   its window - still that version: the writer cannot touch that copy before the reader has deregistered); it is
   at least as recent as every release that had returned when the lock_shared was invoked *)
Lemma lock_shared_takes_committed nw ns x pl progs s t c l g' l' es :
  R nw ns x pl progs s -> nth_error (thr s) t = Some l -> at_ l = S_re ->
  tstep t c (gl s) l = Some (g', l', es) ->
  let v := cvid (cp (gl s) (rside l)) in
  nth_error (ssl l') (sl l) = Some (Some (Snap v (need l) (content (heap (gl s) v)))) /\
  (need l <= vseq (heap (gl s) v))%nat /\ (vseq (heap (gl s) v) <= ncommit (gl s))%nat /\
  published (heap (gl s) v) = true /\ es = [E K_RD_END (O_SL (rside l)) 0].
Proof.
  intros HR Hl Hp Hs v. pose proof (R_inv _ _ _ _ _ _ HR) as HI.
  destruct (I_loc _ _ HI _ _ Hl) as [(_ & _ & Hk) _]. rewrite Hp in Hk.
  pose proof (I_rv _ _ HI _ _ Hl) as Hrv. unfold rvok in Hrv. rewrite Hp in Hrv.
  unfold tstep in Hs. rewrite Hp in Hs. inversion Hs; subst. cbn.
  repeat split; auto.
  - apply (nth_upd_eq _ _ _ _ Hk).
  - apply (H_seq _ (I_heap _ _ HI)).
  - apply (H_refs _ (I_heap _ _ HI)), (copy_counted _ _ HI).
Qed.
(* ... and at the load of readingLeft that copy holds the committed version *)
Lemma lock_shared_directed nw ns x pl progs s t c l g' l' es :
  R nw ns x pl progs s -> nth_error (thr s) t = Some l -> at_ l = S_ldr ->
  tstep t c (gl s) l = Some (g', l', es) ->
  at_ l' = S_rb /\ rside l' = rl (gl s) /\ cvid (cp (gl s) (rl (gl s))) = committed (gl s) /\
  vseq (heap (gl s) (committed (gl s))) = ncommit (gl s) /\ (need l <= nret (gl s))%nat.
Proof.
  intros HR Hl Hp Hs. pose proof (R_inv _ _ _ _ _ _ HR) as HI.
  destruct (I_loc _ _ HI _ _ Hl) as [_ Hn]. unfold nok in Hn. rewrite Hp in Hn.
  destruct (I_vis _ _ HI) as [V1 _]. destruct (H_com _ (I_heap _ _ HI)) as (E1 & _).
  unfold tstep in Hs. rewrite Hp in Hs. inversion Hs; subst. cbn. repeat split; auto.
Qed.

(* ---------- C04: cancel ---------- *)
Lemma cancel_step nw ns x pl progs s t c l g' l' es :
  R nw ns x pl progs s -> nth_error (thr s) t = Some l -> at_ l = C_unlock ->
  tstep t c (gl s) l = Some (g', l', es) ->
  let g := gl s in
  omtx g = Some t /\ omtx g' = None /\ committed g' = committed g /\ applied g' = applied g /\
  cleft g' = cleft g /\ cright g' = cright g /\
  freed (heap g (cv l)) = false /\ published (heap g (cv l)) = false /\ refs (heap g (cv l)) = O /\
  freed (heap g' (cv l)) = true /\ (forall v, v <> cv l -> heap g' v = heap g v) /\
  destroyed g' = destroyed g + 1 /\ races g' = O /\ es = [E K_UNLOCK O_OM 0; ret_ev 0] /\ at_ l' = Idle.
Proof.
  intros HR Hl Hp Hs g. pose proof (R_inv _ _ _ _ _ _ HR) as HI.
  assert (Eo : owns l = true) by (unfold owns; rewrite Hp; reflexivity).
  destruct (I_ook _ _ HI _ _ Hl Eo) as (_ & _ & C). rewrite Hp in C. destruct C as (C1 & C2 & C3 & C4).
  destruct (I_nofault _ _ HI) as [_ F2].
  unfold tstep in Hs. rewrite Hp in Hs. injection Hs as Eg El Ee. subst g' l' es. fold g.
  splits; auto; cbn; try reflexivity.
  - apply (I_oown _ _ HI _ _ Hl Eo).
  - unfold fupd. rewrite Nat.eqb_refl. reflexivity.
  - intros v Hne. apply fupd_ne. exact Hne.
  - subst g. rewrite C3. exact F2.
Qed.

(* ---------- C14: lock_shared and the snapshot operations never wait ---------- *)
Definition spc (p : pc) : bool :=
  match p with S_ldc | S_inc | S_ldr | S_rb | S_re | S_dec | SR_rb | SR_re => true | _ => false end.
Definition is_mutex_kind (k : Z) : bool := (K_LOCK <=? k) && (k <=? K_TRYLOCK_SH_FOR).
Definition is_blocking_kind (k : Z) : bool :=
  is_mutex_kind k || (k =? K_CV_SLEEP) || (k =? K_YIELD) || (k =? K_SLEEP).
Definition is_snapshot_op (o : op) : bool :=
  match o with LockShared _ _ | ReadSnap _ | DropSnap _ | CopySnap _ _ => true | _ => false end.

(* a thread inside lock_shared / a snapshot read is enabled in every state (reachable or not), under
   every choice, whatever pc any writer is at *)
Lemma read_wait_free t c g l : spc (at_ l) = true -> exists r, tstep t c g l = Some r.
Proof.
  intros Hp. destruct l as [pr p ws ss xs s rcn rsd cv0 lr lc tm ed ba nd]. cbn in Hp.
  destruct p; try discriminate; unfold tstep, rd_begin, rd_end, srd_begin; cbn [at_]; eexists; reflexivity.
Qed.
(* ... and so is the invocation of any operation *)
Lemma invoke_enabled t c g l o r : at_ l = Idle -> prog l = o :: r -> exists r', tstep t c g l = Some r'.
Proof.
  intros Hp Hpr. unfold tstep. rewrite Hp, Hpr. unfold touch.
  destruct o; cbn;
    repeat match goal with |- context [match ?x with _ => _ end] => destruct x end; eexists; reflexivity.
Qed.

(* lock_shared is exactly six own steps after its invocation (load countingLeft, increment, load readingLeft,
   the two edges of the read window in which the shared_ptr object is copied, decrement), whatever the other
   threads do in between (g0 .. g5 arbitrary); it returns a snapshot of the version the copy it was directed to
   held at the closing edge of the window *)
Lemma lock_shared_steps t c0 c1 c2 c3 c4 c5 g0 g1 g2 g3 g4 g5 l :
  at_ l = S_ldc -> nth_error (ssl l) (sl l) = Some None ->
  exists l1 l2 l3 l4 l5 l6 g1' g2' g3' g4' g5' e0 e1 e2 es3 e4 e5,
    tstep t c0 g0 l = Some (g0, l1, [e0]) /\ ek e0 = K_LOAD /\ at_ l1 = S_inc /\ rcnt l1 = cl g0 /\
    tstep t c1 g1 l1 = Some (g1', l2, [e1]) /\ ek e1 = K_RMW /\ at_ l2 = S_ldr /\
    ctr g1' (cl g0) = ctr g1 (cl g0) + 1 /\
    tstep t c2 g2 l2 = Some (g2', l3, [e2]) /\ ek e2 = K_LOAD /\ at_ l3 = S_rb /\ rside l3 = rl g2 /\
    tstep t c3 g3 l3 = Some (g3', l4, es3) /\ at_ l4 = S_re /\ In (E K_RD_BEGIN (O_SL (rl g2)) 0) es3 /\
    tstep t c4 g4 l4 = Some (g4', l5, [e4]) /\ e4 = E K_RD_END (O_SL (rl g2)) 0 /\ at_ l5 = S_dec /\
    nth_error (ssl l5) (sl l) =
      Some (Some (Snap (cvid (cp g4 (rl g2))) (need l) (content (heap g4 (cvid (cp g4 (rl g2))))))) /\
    tstep t c5 g5 l5 = Some (g5', l6, [e5; ret_ev 0]) /\ ek e5 = K_RMW /\ at_ l6 = Idle /\
    ctr g5' (cl g0) = ctr g5 (cl g0) - 1 /\ ssl l6 = ssl l5.
Proof.
  intros Hp Hn. destruct l as [pr p ws ss xs s rcn rsd cv0 lr lc tm ed ba nd]. cbn in *. subst p.
  do 17 eexists. unfold tstep, srd_begin; cbn.
  repeat (split; [reflexivity|]). split; [|repeat (split; [reflexivity|])].
  - unfold ctr, set_ctr. destruct (cl g0); reflexivity.
  - split; [apply in_or_app; right; left; reflexivity|]. repeat (split; [reflexivity|]).
    split; [apply (nth_upd_eq _ _ _ _ Hn)|]. repeat (split; [reflexivity|]). split; [|reflexivity].
    unfold ctr, rd_close, cp. cbn. destruct (cl g0), (rl g2); reflexivity.
Qed.

Lemma fault_evs_kind v fs e : In e (fault_evs v fs) -> ek e = K_FAULT.
Proof. unfold fault_evs. intros H. apply in_map_iff in H. destruct H as [c [<- _]]. reflexivity. Qed.
Lemma sfault_evs_kind x fs e : In e (sfault_evs x fs) -> ek e = K_FAULT.
Proof. unfold sfault_evs. intros H. apply in_map_iff in H. destruct H as [c [<- _]]. reflexivity. Qed.
Ltac ev_kinds Hin :=
  repeat first [ apply in_app_or in Hin; destruct Hin as [Hin|Hin]
               | apply fault_evs_kind in Hin; rewrite Hin; reflexivity
               | apply sfault_evs_kind in Hin; rewrite Hin; reflexivity
               | destruct Hin as [Hin|Hin]; [subst; reflexivity|]
               | contradiction ].

(* reader operations perform no mutex operation, never yield or sleep, and leave both mutexes alone *)
Lemma readers_take_no_mutex t c g l g' l' es :
  tstep t c g l = Some (g', l', es) ->
  (spc (at_ l) = true \/ (at_ l = Idle /\ exists o r, prog l = o :: r /\ is_snapshot_op o = true)) ->
  omtx g' = omtx g /\ imtx g' = imtx g /\ forall e, In e es -> is_blocking_kind (ek e) = false.
Proof.
  intros Hs Hp. destruct l as [pr p ws ss xs s rcn rsd cv0 lr lc tm ed ba nd].
  destruct p; cbn in Hp; try (destruct Hp as [Hp|[Hp _]]; discriminate).
  1: destruct Hp as [Hp|[_ (o & r & Hpr & Ho)]]; [discriminate|]; subst pr; destruct o; try discriminate.
  all: step_cases Hs; unfold rd_open, rd_close, srd_end; cbn; autorewrite with cow; splits; auto;
       intros e Hin; cbn in Hin; ev_kinds Hin.
Qed.

(* ---------- C14: the writer waits only for readers that are inside lock_shared / lock() ---------- *)
(* the counter a drain loop waits for *)
Definition awaits (l : loc) : option bool :=
  match at_ l with
  | W_d1 | W_y1 => Some (negb (lcl l))
  | W_d2 | W_y2 => Some (lcl l)
  | _ => None
  end.
(* once the awaited counter is zero the next load leaves the loop *)
Lemma writer_drain_exits t c g l :
  (at_ l = W_d1 \/ at_ l = W_d2) -> (forall k, awaits l = Some k -> ctr g k = 0) ->
  exists g' l' es, tstep t c g l = Some (g', l', es) /\
                   at_ l' = (match at_ l with W_d1 => W_stc | _ => W_a2b end).
Proof.
  intros Hp Hz. destruct l as [pr p ws ss xs s rcn rsd cv0 lr lc tm ed ba nd]. unfold awaits in Hz. cbn in *.
  destruct Hp; subst p; unfold tstep; cbn; rewrite (Hz _ eq_refl); cbn; do 3 eexists; split; reflexivity.
Qed.
(* while a writer is in a drain loop, m_countingLeft designates the counter it is NOT waiting for:
   readers that arrive register elsewhere *)
Lemma new_readers_other_counter nw ns x pl progs s w lw k :
  R nw ns x pl progs s -> nth_error (thr s) w = Some lw -> awaits lw = Some k -> cl (gl s) = negb k.
Proof.
  intros HR Hw Ha. pose proof (R_inv _ _ _ _ _ _ HR) as HI.
  assert (Hh : ipc (at_ lw) = true) by (unfold awaits in Ha; destruct (at_ lw); try discriminate; reflexivity).
  pose proof (I_w _ _ HI _ _ Hw Hh) as Hwok. unfold wok in Hwok. unfold awaits in Ha.
  destruct (at_ lw); try discriminate; inversion Ha; subst; destr_and; try congruence.
  all: rewrite negb_involutive; congruence.
Qed.
Lemma counters_count nw ns x pl progs s k :
  R nw ns x pl progs s -> ctr (gl s) k = Z.of_nat (list_sum (map (reg k) (thr s))).
Proof. intros HR. apply (I_cnt _ _ (R_inv _ _ _ _ _ _ HR)). Qed.
Lemma sum_pos_ex {A} (f : A -> nat) (l : list A) :
  (0 < list_sum (map f l))%nat -> exists u x, nth_error l u = Some x /\ (0 < f x)%nat.
Proof.
  induction l as [|a r IH]; unfold list_sum; cbn; intros H; [lia|].
  destruct (f a) eqn:E.
  - destruct (IH H) as (u & x & Hu & Hx). exists (S u), x. auto.
  - exists O, a. split; [reflexivity|lia].
Qed.
(* a non-zero counter means a thread between its increment and its decrement INSIDE lock_shared or lock():
   a snapshot that is merely held is registered nowhere *)
Lemma spinning_means_registered nw ns x pl progs s k :
  R nw ns x pl progs s -> ctr (gl s) k <> 0 ->
  exists u lu, nth_error (thr s) u = Some lu /\ rgpc (at_ lu) = true /\ rcnt lu = k.
Proof.
  intros HR Hnz. pose proof (counters_count _ _ _ _ _ _ k HR) as E.
  destruct (sum_pos_ex (reg k) (thr s)) as (u & lu & Hu & Hpos); [lia|].
  exists u, lu. split; [exact Hu|]. unfold reg in Hpos.
  destruct (rgpc (at_ lu)); [|cbn in Hpos; lia]. split; [reflexivity|].
  destruct (Bool.eqb (rcnt lu) k) eqn:Eb; [|cbn in Hpos; lia]. apply eqb_prop in Eb. exact Eb.
Qed.
(* ... and such a thread can always move (in any state) until it has deregistered *)
Lemma registered_enabled t c g l : rgpc (at_ l) = true -> exists r, tstep t c g l = Some r.
Proof.
  intros Hp. destruct l as [pr p ws ss xs s rcn rsd cv0 lr lc tm ed ba nd]. cbn in Hp.
  destruct p; try discriminate; unfold tstep, rd_begin, rd_end, touch, srd_begin; cbn [at_];
    try (destruct (zmem _ _)); eexists; reflexivity.
Qed.
Lemma held_snapshot_not_registered l k : at_ l = Idle -> reg k l = O /\ rdo k l = O.
Proof. intros Hp. unfold reg, rdo. rewrite Hp. split; reflexivity. Qed.

(* the owner of the outer mutex inside lock() / release / cancel can always move *)
Lemma owner_enabled nw ns x pl progs s a la c :
  R nw ns x pl progs s -> nth_error (thr s) a = Some la -> opc (at_ la) = true -> enabledR s a c.
Proof.
  intros HR Hl Hp. pose proof (R_inv _ _ _ _ _ _ HR) as HI.
  assert (exists r, tstep a c (gl s) la = Some r) as [r Hr]; [|exists la, r; auto].
  destruct (at_ la) eqn:Ep; try discriminate; unfold tstep; rewrite Ep;
    unfold rd_begin, rd_end, touch, srd_begin, swr_begin; try (eexists; reflexivity).
  - destruct (zmem _ _); eexists; reflexivity.
  - (* W_lock: the inner mutex is free, because whoever holds it owns the outer one *)
    destruct (imtx (gl s)) as [b|] eqn:Em; [exfalso|eexists; reflexivity].
    destruct (I_iheld _ _ HI _ Em) as [lb [Hb Hi]].
    assert (Eo : owns la = true) by (unfold owns; rewrite Ep; reflexivity).
    assert (Eb : owns lb = true) by (unfold owns; rewrite (ipc_opc _ Hi); reflexivity).
    pose proof (I_oown _ _ HI _ _ Hl Eo). pose proof (I_oown _ _ HI _ _ Hb Eb).
    assert (b = a) by congruence. subst b. assert (lb = la) by congruence. subst lb. rewrite Ep in Hi. discriminate.
  - destruct (_ =? 0); eexists; reflexivity.
  - destruct (_ =? 0); eexists; reflexivity.
Qed.

(* when nothing can move, every thread has finished, or waits in lock() for a write handle that its
   holder will never release (the holder has finished, or has re-entered lock() itself) *)
Lemma quiescent_shape nw ns x pl progs s :
  R nw ns x pl progs s -> quiescent glob loc tstep s ->
  forall u l, nth_error (thr s) u = Some l ->
    fin l = true \/
    (at_ l = L_lock /\ exists a la, omtx (gl s) = Some a /\ nth_error (thr s) a = Some la /\
                         hasw (wsl la) = true /\ (fin la = true \/ at_ la = L_lock)).
Proof.
  intros HR HQ u l Hl. pose proof (R_inv _ _ _ _ _ _ HR) as HI.
  assert (Hdis : forall v lv, nth_error (thr s) v = Some lv -> tstep v 0 (gl s) lv = None).
  { intros v lv Hv. destruct (tstep v 0 (gl s) lv) as [r|] eqn:Hs; [exfalso|reflexivity].
    apply (HQ v 0%nat); [lia|]. exists lv, r. auto. }
  assert (Hblocked : forall v lv, nth_error (thr s) v = Some lv -> fin lv = true \/ at_ lv = L_lock).
  { intros v lv Hv. pose proof (Hdis _ _ Hv) as Hs.
    destruct (opc (at_ lv)) eqn:Eo.
    { exfalso. destruct (owner_enabled _ _ _ _ _ _ _ _ 0%nat HR Hv Eo) as (l0 & r0 & E0 & E1). congruence. }
    destruct lv as [pr p ws ss xs s0 rcn rsd cv0 lr lc tm ed ba nd]. cbn in Eo.
    destruct p; try discriminate; auto; unfold tstep, rd_begin, rd_end, srd_begin in Hs; cbn [at_ prog] in Hs; try discriminate.
    destruct pr as [|o r0]; [left; reflexivity|exfalso].
    destruct (invoke_enabled v 0%nat (gl s) (Loc (o :: r0) Idle ws ss xs s0 rcn rsd cv0 lr lc tm ed ba nd) o r0 eq_refl eq_refl) as [r' Hr'].
    unfold tstep in Hr'. cbn [at_ prog] in Hr'. congruence. }
  destruct (Hblocked _ _ Hl) as [Hf|Hp]; [left; exact Hf|right]. split; [exact Hp|].
  pose proof (Hdis _ _ Hl) as Hs. unfold tstep in Hs. rewrite Hp in Hs.
  destruct (omtx (gl s)) as [a|] eqn:Em; [|discriminate].
  destruct (I_oheld _ _ HI _ Em) as [la [Ha Hown]]. exists a, la. repeat split; auto.
  - unfold owns in Hown. destruct (opc (at_ la)) eqn:Eo; [exfalso|exact Hown].
    destruct (owner_enabled _ _ _ _ _ _ _ _ 0%nat HR Ha Eo) as (l0 & r0 & E0 & E1).
    pose proof (Hdis _ _ Ha). congruence.
  - apply (Hblocked _ _ Ha).
Qed.
(* in particular: when every write handle has been released or cancelled, nothing can be stuck *)
Lemma commit_completes nw ns x pl progs s :
  R nw ns x pl progs s -> quiescent glob loc tstep s ->
  (forall u l, nth_error (thr s) u = Some l -> hasw (wsl l) = false) ->
  all_fin glob loc fin s = true.
Proof.
  intros HR HQ Hno. unfold all_fin. apply forallb_forall. intros l Hin. apply In_nth_error in Hin. destruct Hin as [u Hl].
  destruct (quiescent_shape _ _ _ _ _ _ HR HQ _ _ Hl) as [Hf|(_ & a & la & _ & Ha & Hw & _)]; [exact Hf|].
  rewrite (Hno _ _ Ha) in Hw. discriminate.
Qed.

(* bounded work: every step decreases the measure, except a drain-loop load that sees a non-zero counter *)
Definition wpc (p : pc) : nat :=
  match p with
  | Idle => 0
  | L_lock => 20 | L_ldc => 19 | L_inc => 18 | L_ldr => 17 | L_call => 16 | L_rb => 15 | L_re => 14 | L_dec => 13
  | X_dec => 2 | X_unlock => 1
  | HW_wb => 2 | HW_we => 1 | HI_rb => 4 | HI_re => 3 | HI_wb => 2 | HI_we => 1 | HR_rb => 2 | HR_re => 1
  | W_lock => 16 | W_ldr => 15 | W_a1b => 14 | W_a1e => 13 | W_str => 12 | W_ldc => 11 | W_y1 => 10 | W_d1 => 9 | W_stc => 8
  | W_y2 => 7 | W_d2 => 6 | W_a2b => 5 | W_a2e => 4 | W_unlock => 3 | W_ounlock => 2
  | C_unlock => 1
  | S_ldc => 6 | S_inc => 5 | S_ldr => 4 | S_rb => 3 | S_re => 2 | S_dec => 1 | SR_rb => 2 | SR_re => 1
  end%nat.
Definition wloc (l : loc) : nat := (21 * length (prog l) + wpc (at_ l))%nat.
Definition mu (s : sysR) : nat := list_sum (map wloc (thr s)).
Definition is_retry (g : glob) (l : loc) : bool :=
  match at_ l with
  | W_d1 => negb (ctr g (negb (lcl l)) =? 0)
  | W_d2 => negb (ctr g (lcl l) =? 0)
  | _ => false
  end.
Lemma wloc_step t c g l g' l' es : tstep t c g l = Some (g', l', es) ->
  if is_retry g l then wloc l' = S (wloc l) else (wloc l' < wloc l)%nat.
Proof.
  intros Hs. destruct l as [pr p ws ss xs s rcn rsd cv0 lr lc tm ed ba nd].
  destruct p; step_cases Hs; unfold is_retry, wloc; cbn [at_ prog lcl length wpc set_at set_tmp set_cv set_rcnt set_lrl set_lcl set_wsl set_ssl set_ced set_nsl set_rside];
    try match goal with H : (_ =? 0) = _ |- _ => rewrite H end; cbn [negb]; try lia.
  all: cbn [lcl] in *; match goal with H : (?a =? 0) = _ |- _ => rewrite H; cbn; lia end.
Qed.
Fixpoint work_retries (s : sysR) (sc : list (nat * nat)) : nat * nat :=
  match sc with
  | [] => (O, O)
  | tc :: r =>
    let wq := work_retries (stepR s tc) r in
    match nth_error (thr s) (fst tc) with
    | Some l =>
      match tstep (fst tc) (snd tc) (gl s) l with
      | Some _ => if is_retry (gl s) l then (fst wq, S (snd wq)) else (S (fst wq), snd wq)
      | None => wq
      end
    | None => wq
    end
  end.
Lemma bounded_work sc : forall s : sysR,
  (fst (work_retries s sc) + mu (runR s sc) <= mu s + snd (work_retries s sc))%nat.
Proof.
  induction sc as [|[t c] r IH]; intros s; cbn [work_retries run fold_left fst snd]; [lia|].
  specialize (IH (stepR s (t, c))). unfold run in IH.
  unfold step, sys_step in *. destruct (nth_error (thr s) t) as [l|] eqn:Hl; [|cbn in *; exact IH].
  destruct (tstep t c (gl s) l) as [[[g' l'] es]|] eqn:Hs; [|cbn in *; exact IH].
  cbn [fst] in *. pose proof (wloc_step _ _ _ _ _ _ _ Hs) as Hw.
  pose proof (sum_upd wloc (thr s) t l l' Hl) as E.
  unfold mu at 2. unfold mu at 2 in IH. cbn [thr gl] in IH.
  destruct (is_retry (gl s) l); cbn [fst snd]; lia.
Qed.
(* a drain loop goes round only while some thread is registered in the awaited counter *)
Lemma retry_means_registered nw ns x pl progs s w lw :
  R nw ns x pl progs s -> nth_error (thr s) w = Some lw -> is_retry (gl s) lw = true ->
  exists k, awaits lw = Some k /\ ctr (gl s) k <> 0 /\
  exists u lu, nth_error (thr s) u = Some lu /\ rgpc (at_ lu) = true /\ rcnt lu = k.
Proof.
  intros HR Hw Hr. unfold is_retry in Hr. unfold awaits.
  destruct (at_ lw); try discriminate; apply negb_true_iff, Z.eqb_neq in Hr;
    eexists; (split; [reflexivity|]); (split; [exact Hr|]); apply (spinning_means_registered _ _ _ _ _ _ _ HR Hr).
Qed.

(* ---------- C20: a throwing copy in lock() ---------- *)
(* the path of the exception: the throwing call, the release of the inner read registration (~data),
   the release of the outer mutex (~guard), in that order; then the operation ends by exception *)
Lemma throw_path t c g l g' l' es : tstep t c g l = Some (g', l', es) ->
  match at_ l with
  | L_call => if zmem (calls g) (plan g)
              then at_ l' = X_dec /\ In (E K_THROW 0 (calls g)) es /\ heap g' = heap g /\ omtx g' = omtx g
              else at_ l' = L_rb
  | X_dec => at_ l' = X_unlock /\ ctr g' (rcnt l) = ctr g (rcnt l) - 1 /\ omtx g' = omtx g /\ heap g' = heap g /\
             es = [ESC K_RMW (o_ctr (rcnt l)) (ctr g (rcnt l) - 1)]
  | X_unlock => at_ l' = Idle /\ omtx g' = None /\ heap g' = heap g /\ es = [E K_UNLOCK O_OM 0; E K_CATCH 0 0]
  | _ => True
  end.
Proof.
  intros Hs. destruct l as [pr p ws ss xs s rcn rsd cv0 lr lc tm ed ba nd].
  destruct p; try exact I; step_cases Hs; cbn; unfold rd_close, ctr, cp; cbn;
    try match goal with H : zmem _ _ = _ |- _ => rewrite H end; auto.
  all: repeat split; auto; destruct rcn, rsd; reflexivity.
Qed.
(* the state in which the exception leaves lock(): the thread owns no mutex, holds no handle, is registered
   in no counter, has no window open; the committed version, both copies and every version are untouched,
   no version was created *)
Lemma lock_copy_throw nw ns x pl progs s t c l g' l' es :
  R nw ns x pl progs s -> nth_error (thr s) t = Some l -> at_ l = X_unlock ->
  tstep t c (gl s) l = Some (g', l', es) ->
  let g := gl s in
  omtx g = Some t /\ omtx g' = None /\ imtx g' = imtx g /\ committed g' = committed g /\
  cleft g' = cleft g /\ cright g' = cright g /\ heap g' = heap g /\ next g' = next g /\
  at_ l' = Idle /\ owns l' = false /\ wsl l' = wsl l /\ ssl l' = ssl l /\
  (forall k, reg k l' = O /\ rdo k l' = O /\ reg k l = O /\ rdo k l = O) /\
  es = [E K_UNLOCK O_OM 0; E K_CATCH 0 0].
Proof.
  intros HR Hl Hp Hs g. pose proof (R_inv _ _ _ _ _ _ HR) as HI.
  assert (Eo : owns l = true) by (unfold owns; rewrite Hp; reflexivity).
  destruct (I_loc _ _ HI _ _ Hl) as [(_ & Hn0 & _) _]. rewrite Hp in Hn0. specialize (Hn0 eq_refl).
  unfold tstep in Hs. rewrite Hp in Hs. injection Hs as Eg El Ee. subst g' l' es. fold g.
  splits; auto; try reflexivity.
  - apply (I_oown _ _ HI _ _ Hl Eo).
  - unfold owns. cbn. apply hasw_false. exact Hn0.
  - intros k. unfold reg, rdo. cbn. rewrite Hp. cbn. auto.
Qed.
(* the object stays usable: a free outer mutex can be taken by whoever asks *)
Lemma lock_enabled_when_free t c g l : at_ l = L_lock -> omtx g = None -> exists r, tstep t c g l = Some r.
Proof. intros Hp Hm. unfold tstep. rewrite Hp, Hm. eexists. reflexivity. Qed.
(* a thread back at top level without a write handle owns nothing *)
Lemma nonowner_owns_nothing nw ns x pl progs s t l :
  R nw ns x pl progs s -> nth_error (thr s) t = Some l -> owns l = false ->
  omtx (gl s) <> Some t /\ imtx (gl s) <> Some t.
Proof.
  intros HR Hl Ho. pose proof (R_inv _ _ _ _ _ _ HR) as HI. split; intros Hm.
  - destruct (I_oheld _ _ HI _ Hm) as [l0 [E0 H0]]. congruence.
  - destruct (I_iheld _ _ HI _ Hm) as [l0 [E0 H0]]. assert (l0 = l) by congruence. subst l0.
    unfold owns in Ho. rewrite (ipc_opc _ H0) in Ho. discriminate.
Qed.

(* no fault is ever logged: no payload window overlaps a write window, no destroyed version is used;
   and (ghost) no conflicting shared_ptr accesses, no double destruction *)
Lemma no_fault nw ns x pl progs s : R nw ns x pl progs s -> faults (gl s) = O /\ races (gl s) = O.
Proof. intros HR. apply (I_nofault _ _ (R_inv _ _ _ _ _ _ HR)). Qed.

(* exclusion on the two copies of the inner lr_guarded (C03 technique): a reader window and a writer window
   are never open on the same copy *)
Definition wr_window (l : loc) (x : bool) : Prop :=
  ((at_ l = W_a1b \/ at_ l = W_a1e \/ at_ l = W_str) /\ x = negb (lrl l)) \/
  ((at_ l = W_a2b \/ at_ l = W_a2e \/ at_ l = W_unlock) /\ x = lrl l).
Definition rd_window (l : loc) (x : bool) : Prop := rwpc (at_ l) = true /\ rside l = x.
Lemma inner_exclusion nw ns x pl progs s r lr w lw y :
  R nw ns x pl progs s -> nth_error (thr s) r = Some lr -> nth_error (thr s) w = Some lw ->
  wr_window lw y -> ~ rd_window lr y.
Proof.
  intros HR Hr Hw Hy [Hp Hs]. pose proof (R_inv _ _ _ _ _ _ HR) as HI.
  pose proof (I_rw _ _ HI _ _ Hr Hp) as Hk. unfold hok in Hk.
  assert (Hi : ipc (at_ lw) = true) by (destruct Hy as [[[-> |[-> | ->]] _]|[[-> |[-> | ->]] _]]; reflexivity).
  pose proof (I_w _ _ HI _ _ Hw Hi) as Hwk. unfold wok in Hwk.
  destruct Hy as [[Ep Ey]|[Ep Ey]].
  - assert (E : lrl lw = rl (gl s) /\ gph (gl s) = PA) by (destruct Ep as [Ep|[Ep|Ep]]; rewrite Ep in Hwk; tauto).
    destruct E as [E1 E2]. rewrite E2 in Hk. subst y. rewrite Hk in Hs. rewrite <- E1 in Hs.
    destruct (lrl lw); discriminate.
  - assert (E : lrl lw = negb (rl (gl s)) /\ gph (gl s) = PA) by (destruct Ep as [Ep|[Ep|Ep]]; rewrite Ep in Hwk; tauto).
    destruct E as [E1 E2]. rewrite E2 in Hk. subst y. rewrite Hk, E1 in Hs.
    destruct (rl (gl s)); discriminate.
Qed.
(* the observable windows: while the write window of an assignment to a shared_ptr object is open (between its
   K_WR_BEGIN and K_WR_END) no read window is open on it (no lock_shared is between K_RD_BEGIN and K_RD_END of its
   copy), and vice versa; the wrapper's own overlap reports (K_FAULT on the object) are covered by [no_fault] *)
Lemma slot_windows_disjoint nw ns x pl progs s y :
  R nw ns x pl progs s -> xwr (cp (gl s) y) = true -> xrd (cp (gl s) y) = 0 /\ nrd (cp (gl s) y) = 0.
Proof.
  intros HR Hx. pose proof (R_inv _ _ _ _ _ _ HR) as HI.
  destruct (I_vis _ _ HI) as (_ & _ & V3).
  assert (Ey : y = negb (rl (gl s))) by (destruct y, (rl (gl s)); cbn in *; try reflexivity; congruence).
  assert (Hpa : gph (gl s) = PA).
  { destruct (imtx (gl s)) as [a|] eqn:Em.
    - destruct (I_iheld _ _ HI _ Em) as [la [Ha Hi]]. pose proof (I_w _ _ HI _ _ Ha Hi) as Hw. unfold wok, oth in Hw.
      rewrite <- Ey in Hw. destruct (at_ la); try discriminate; destr_and; try congruence.
    - destruct (I_idle _ _ HI Em) as (E & _). exact E. }
  pose proof (nrd_other_pa _ _ HI Hpa) as H1. pose proof (xrd_le_nrd _ _ HI y) as H2. unfold oth in H1. rewrite <- Ey in H1.
  assert (0 <= xrd (cp (gl s) y)) by (rewrite (I_xrd _ _ HI); lia).
  split; lia.
Qed.


(* ---------- C04: the version ledger ---------- *)
(* second layer: a version that exists and is not destroyed is referenced (by a copy or a snapshot) or is
   the private version of the thread that owns the outer mutex *)
Definition ppc (p : pc) : bool := match p with L_dec | W_lock | W_ldr | W_a1b | W_a1e | C_unlock => true | _ => false end.
Definition pown (l : loc) (v : nat) : Prop := In (Some v) (wsl l) \/ (cv l = v /\ ppc (at_ l) = true).
Definition live (g : glob) (ls : list loc) : Prop :=
  forall v, (v < next g)%nat -> freed (heap g v) = false ->
    (1 <= refs (heap g v))%nat \/ exists a l, nth_error ls a = Some l /\ pown l v.

Lemma version_step t c g l g' l' es v :
  tstep t c g l = Some (g', l', es) -> lok l -> (owns l = true -> ook g l) ->
  (forall x, (1 <= refs (heap g (cvid (cp g x))))%nat) ->
  (v < next g')%nat -> freed (heap g' v) = false ->
  ((v < next g)%nat /\ freed (heap g v) = false /\
   ((1 <= refs (heap g v))%nat -> (1 <= refs (heap g' v))%nat) /\
   (pown l v -> pown l' v \/ (1 <= refs (heap g' v))%nat)) \/
  (v = next g /\ pown l' v).
Proof.
  intros Hs (Hn1 & Hn0 & Hk) Hok Hcp Hlt Hf.
  pose proof (Hcp true) as Hcp1. pose proof (Hcp false) as Hcp0.
  destruct l as [pr p ws ss xs s rcn rsd cv0 lr lc tm ed ba nd]. set (PC := p).
  destruct p; step_cases Hs; unfold owns, pown in *; cbn in Hk, Hn0, Hok.
  all: try (specialize (Hn0 eq_refl)); try (specialize (Hok eq_refl)).
  all: try (destruct Hok as (A & B & C); cbn in C; unfold pvok in C; destr_and).
  all: unfold rd_open, rd_close, wr_open, wr_close, srd_end, cp in *; cbn in *; autorewrite with cow in *; cbn in *.
  all: try (left; splits; solve [auto | intros [Hin|[? ?]]; [auto|discriminate] | intros [Hin|[? ?]]; auto]).
  all: try (assert (Hno : forall w, ~ In (Some w) ws) by (intros w; apply nwhl_zero_noin; exact Hn0)).
  all: try match goal with H : nth_error ?w ?i = Some (Some ?n) |- context [In _ ?w] =>
             assert (Huq : forall w0, In (Some w0) w -> w0 = n) by (intros w0 Hw0; eapply nwhl_one_unique; eauto) end.
  all: try match goal with
           | Ha : nth_error ?w ?a = Some (Some ?h), Hb : nth_error ?w ?b = Some None |- context [upd (upd ?w ?b ?x) ?a _] =>
               assert (a <> b) as Hab by (intros ->; congruence);
               assert (In (Some h) (upd (upd w b x) a None))
                 by (apply (nth_error_In _ b); rewrite nth_upd_ne by auto; apply (nth_upd_eq _ _ _ _ Hb))
           end.
  all: try (assert (In (Some cv0) (upd ws s (Some cv0))) by (apply (nth_error_In _ s), (nth_upd_eq _ _ _ _ Hk))).
  all: try (destruct (Nat.eq_dec v (next g)) as [Evn|Evn]; [right; subst v; split; [reflexivity|right; split; reflexivity]|]).
  all: try (left; heapsimp; eqbs; cbn in *; try (destruct (rl g)); try (destruct lr); cbn in *; rewrite ?orb_false_iff in *;
            splits; try lia; try tauto;
            solve [auto | lia | congruence | discriminate
                  | intros [Hin|[? ?]]; solve [auto | discriminate | exfalso; eapply Hno; eauto | subst; auto | right; lia | left; left; auto
                                               | rewrite (Huq _ Hin) in *; auto | rewrite (Huq _ Hin) in *; left; right; auto]
                  | intuition (auto; try lia; try congruence)]).
Qed.

Lemma live_init nw ns x pl progs : live (gl (init nw ns x pl progs)) (thr (init nw ns x pl progs)).
Proof. intros v Hlt Hf. cbn in *. left. assert (v = O) by lia. subst v. cbn. lia. Qed.

Lemma live_step g ls t c l g' l' es :
  Inv g ls -> nth_error ls t = Some l -> tstep t c g l = Some (g', l', es) -> live g ls -> live g' (upd ls t l').
Proof.
  intros HI Hl Hs HL v Hlt Hf.
  destruct (I_loc _ _ HI _ _ Hl) as [Hk _].
  destruct (version_step _ _ _ _ _ _ _ v Hs Hk (fun E => I_ook _ _ HI _ _ Hl E) (copy_counted _ _ HI) Hlt Hf)
    as [(V1 & V2 & V3 & V4)|(V1 & V2)].
  - destruct (HL v V1 V2) as [Hr|(a & la & Ha & Hp)]; [left; auto|].
    destruct (Nat.eq_dec a t) as [->|Hne].
    + assert (la = l) by congruence. subst la. destruct (V4 Hp) as [Hp'|Hr]; [right|left; exact Hr].
      exists t, l'. split; [apply (nth_upd_eq _ _ _ _ Hl)|exact Hp'].
    + right. exists a, la. split; [rewrite nth_upd_ne by auto; exact Ha|exact Hp].
  - right. exists t, l'. split; [apply (nth_upd_eq _ _ _ _ Hl)|exact V2].
Qed.
Lemma R_live nw ns x pl progs s : R nw ns x pl progs s -> live (gl s) (thr s).
Proof.
  intros [sc ->].
  assert (H : forall sc s, Inv (gl s) (thr s) -> live (gl s) (thr s) -> live (gl (runR s sc)) (thr (runR s sc))).
  { clear. induction sc as [|tc sc IH]; intros s HI Hn; cbn [run fold_left]; [exact Hn|].
    apply IH.
    - apply (step_inv glob loc tstep Inv Inv_step); exact HI.
    - unfold step, sys_step. destruct tc as [t c]. destruct (nth_error (thr s) t) as [l|] eqn:Hl; [|exact Hn].
      destruct (tstep t c (gl s) l) as [[[g' l'] es]|] eqn:Hs; [|exact Hn]. cbn. eapply live_step; eauto. }
  apply H; [apply Inv_init|apply live_init].
Qed.

(* every version that exists and is not destroyed is accounted for *)
Lemma version_accounted nw ns x pl progs s v :
  R nw ns x pl progs s -> (v < next (gl s))%nat -> freed (heap (gl s) v) = false ->
  (1 <= refs (heap (gl s) v))%nat \/ exists a l, nth_error (thr s) a = Some l /\ pown l v.
Proof. intros HR. apply (R_live _ _ _ _ _ _ HR). Qed.
(* ... and a referenced version is referenced by one of the two copies or by a held snapshot *)
Lemma refs_exact nw ns x pl progs s v :
  R nw ns x pl progs s -> refs (heap (gl s) v) = (cpc (gl s) v + list_sum (map (snc v) (thr s)))%nat.
Proof. intros HR. apply (I_refs _ _ (R_inv _ _ _ _ _ _ HR)). Qed.

(* at rest (every thread between operations, no write handle, no snapshot): exactly the committed version
   is alive; every other version that was ever created has been destroyed *)
Definition at_rest (l : loc) : Prop :=
  at_ l = Idle /\ nwhl (wsl l) = O /\ forall sn, ~ In (Some sn) (ssl l).
Lemma versions_at_rest nw ns x pl progs s :
  R nw ns x pl progs s -> (forall u l, nth_error (thr s) u = Some l -> at_rest l) ->
  omtx (gl s) = None /\ imtx (gl s) = None /\ created (gl s) = Z.of_nat (next (gl s)) /\
  forall v, (v < next (gl s))%nat -> (freed (heap (gl s) v) = false <-> v = committed (gl s)).
Proof.
  intros HR Hrest. pose proof (R_inv _ _ _ _ _ _ HR) as HI. pose proof (I_heap _ _ HI) as Hh.
  assert (Ho : omtx (gl s) = None).
  { destruct (omtx (gl s)) as [a|] eqn:E; [exfalso|reflexivity]. destruct (I_oheld _ _ HI _ E) as [la [Ha Hown]].
    destruct (Hrest _ _ Ha) as (P & N & _). unfold owns in Hown. rewrite P in Hown. cbn in Hown.
    apply hasw_true in Hown. lia. }
  assert (Him : imtx (gl s) = None).
  { destruct (imtx (gl s)) as [a|] eqn:E; [exfalso|reflexivity]. destruct (I_iheld _ _ HI _ E) as [la [Ha Hi]].
    destruct (Hrest _ _ Ha) as (P & _). rewrite P in Hi. discriminate. }
  destruct (copies_committed_when_idle _ _ _ _ _ _ HR Him) as [CL CR].
  splits; auto. { apply (H_cre _ Hh). }
  intros v Hlt. split.
  - intros Hf. destruct (version_accounted _ _ _ _ _ _ _ HR Hlt Hf) as [Hr|(a & la & Ha & Hp)].
    + rewrite (refs_exact _ _ _ _ _ _ v HR) in Hr.
      assert (Z0 : list_sum (map (snc v) (thr s)) = O).
      { apply all_zero_sum. intros u lu Hu. destruct (Hrest _ _ Hu) as (_ & _ & Hs). unfold snc.
        apply all_zero_sum. intros i o Hi. destruct o as [sn|]; [|reflexivity]. destruct (Hs sn (nth_error_In _ _ Hi)). }
      rewrite Z0 in Hr. unfold cpc in Hr. rewrite CL, CR in Hr.
      destruct (Nat.eqb_spec (committed (gl s)) v); [auto|cbn in Hr; lia].
    + exfalso. destruct (Hrest _ _ Ha) as (P & N & _). destruct Hp as [Hin|[_ Hpp]].
      * apply (nwhl_zero_noin _ _ N Hin).
      * rewrite P in Hpp. discriminate.
  - intros ->. destruct (freed (heap (gl s) (committed (gl s)))) eqn:E; [exfalso|reflexivity].
    pose proof (H_freed _ Hh _ E) as Z1. pose proof (copy_counted _ _ HI true) as C1. unfold cp in C1. rewrite CL in C1. lia.
Qed.

(* ---------- names used by the multi-component properties (C14, C20) ---------- *)
Definition cow_read_wait_free := read_wait_free.
Definition cow_invoke_enabled := invoke_enabled.
Definition cow_lock_shared_steps := lock_shared_steps.
Definition cow_readers_take_no_mutex := readers_take_no_mutex.
Definition cow_writer_drain_exits := writer_drain_exits.
Definition cow_new_readers_other_counter := new_readers_other_counter.
Definition cow_spinning_means_registered := spinning_means_registered.
Definition cow_registered_enabled := registered_enabled.
Definition cow_owner_enabled := owner_enabled.
Definition cow_quiescent_shape := quiescent_shape.
Definition cow_commit_completes := commit_completes.
Definition cow_bounded_work := bounded_work.
Definition cow_retry_means_registered := retry_means_registered.
Definition cow_throw_path := throw_path.
Definition cow_lock_copy_throw := lock_copy_throw.
Definition cow_lock_enabled_when_free := lock_enabled_when_free.
Definition cow_nonowner_owns_nothing := nonowner_owns_nothing.

(* ---------- C14: every program that gives its write handles back finishes - existence form ---------- *)
(* A decidable walk over the occupancy of a thread's write-handle slots ([oc]: slot holds a live handle, [nl]: slot
   holds a moved-from null handle object), mirroring exactly which operations the model refuses.  It asks for two
   things only, both necessary (they are the two shapes of cow_quiescent_shape):
     - at the end of the program no write handle is live (a thread that ends holding one blocks every later lock());
     - lock() is not called while the thread holds a live write handle (it would wait for itself).
   lock() may end by the copy's exception: then no handle exists, so both continuations are walked.
   Snapshots are not mentioned: a held snapshot blocks nobody (held_snapshot_not_registered). *)
Definition nolive (oc : list bool) : bool := forallb negb oc.
Definition nullb (nl : list bool) (s : nat) : bool := match nth_error nl s with Some true => true | _ => false end.
Fixpoint wf_run (oc nl : list bool) (p : list op) : bool :=
  match p with
  | [] => nolive oc
  | Lock s :: r =>
    match nth_error oc s with
    | Some false => if nullb nl s then wf_run oc nl r
                    else nolive oc && wf_run (upd oc s true) nl r && wf_run oc nl r
    | _ => wf_run oc nl r
    end
  | Release s :: r | ReleaseUnw s :: r =>
    match nth_error oc s with
    | Some true => wf_run (upd oc s false) nl r
    | _ => if nullb nl s then wf_run oc (upd nl s false) r else wf_run oc nl r
    end
  | Cancel s :: r =>
    match nth_error oc s with
    | Some true => wf_run (upd oc s false) nl r
    | _ => wf_run oc nl r
    end
  | Move a b :: r =>
    match nth_error oc a, nth_error oc b with
    | Some true, Some false =>
      if nullb nl b then wf_run oc nl r else wf_run (upd (upd oc b true) a false) (upd nl a true) r
    | _, _ => wf_run oc nl r
    end
  | _ :: r => wf_run oc nl r
  end.
Definition releases_writes (nw : nat) (progs : list (list op)) : bool :=
  forallb (wf_run (repeat false nw) (repeat false nw)) progs.

Definition isSb {A} (o : option A) : bool := match o with Some _ => true | None => false end.
Definition lkpc (p : pc) : bool :=
  match p with L_lock | L_ldc | L_inc | L_ldr | L_call | L_rb | L_re | L_dec => true | _ => false end.
(* the same for a thread in the middle of its program *)
Definition wfl (l : loc) : Prop :=
  let oc := map isSb (wsl l) in
  if lkpc (at_ l)
  then nolive oc = true /\ wf_run (upd oc (sl l) true) (nsl l) (prog l) = true /\ wf_run oc (nsl l) (prog l) = true
  else wf_run oc (nsl l) (prog l) = true.

Lemma map_upd {A B} (f : A -> B) (l : list A) i x : map f (upd l i x) = upd (map f l) i (f x).
Proof. revert i; induction l as [|a r IH]; destruct i; cbn; auto. f_equal. apply IH. Qed.
Lemma map_repeat' {A B} (f : A -> B) x n : map f (repeat x n) = repeat (f x) n.
Proof. induction n; cbn; congruence. Qed.
Lemma nth_isSb (w : list (option nat)) s : nth_error (map isSb w) s = option_map isSb (nth_error w s).
Proof. apply nth_error_map. Qed.

Lemma wfl_step t c g l g' l' es : tstep t c g l = Some (g', l', es) -> lok l -> wfl l -> wfl l'.
Proof.
  intros Hs (_ & _ & Hk) Hw. destruct l as [pr p ws ss xs s rcn rsd cv0 lr lc tm ed ba nd]. set (PC := p).
  destruct p; step_cases Hs; unfold wfl, null_slot, nullb in *;
    cbn [at_ prog wsl nsl sl lkpc set_at set_tmp set_cv set_rcnt set_lrl set_lcl set_wsl set_ssl set_ced set_nsl set_rside] in *;
    rewrite ?map_upd; cbn [isSb]; try tauto.
  all: cbn [wf_run] in Hw; rewrite ?nth_isSb in Hw;
       repeat match goal with H : nth_error _ _ = _ |- _ => rewrite H in Hw end; cbn [option_map isSb] in Hw;
       unfold nullb in Hw; repeat match goal with H : nth_error _ _ = _ |- _ => rewrite H in Hw end;
       repeat match goal with H : match nth_error _ _ with _ => _ end = _ |- _ => rewrite H in Hw end.
  all: try tauto.
  all: try (rewrite !andb_true_iff in Hw; tauto).
Qed.

Definition Inv2 (g : glob) (ls : list loc) : Prop := Inv g ls /\ forall u l, nth_error ls u = Some l -> wfl l.
Lemma Inv2_step : forall g ls t c l g' l' es,
  Inv2 g ls -> nth_error ls t = Some l -> tstep t c g l = Some (g', l', es) -> Inv2 g' (upd ls t l').
Proof.
  intros g ls t c l g' l' es [HI HW] Hl Hs. split; [eapply Inv_step; eauto|].
  intros u lu Hu. apply nth_upd in Hu. destruct Hu as [(<- & -> & _)|(Hne & Hu)]; [|apply (HW _ _ Hu)].
  eapply wfl_step; eauto. apply (I_loc _ _ HI _ _ Hl).
Qed.
Lemma R_inv2 nw ns x pl progs s : R nw ns x pl progs s -> releases_writes nw progs = true -> Inv2 (gl s) (thr s).
Proof.
  intros HR Hwf. eapply reachable_inv; [apply Inv2_step| |exact HR].
  split; [apply Inv_init|]. cbn. intros u l Hu. rewrite nth_error_map in Hu.
  destruct (nth_error progs u) as [p|] eqn:Ep; inversion Hu; subst. unfold wfl, init_loc. cbn.
  rewrite map_repeat'. cbn. unfold releases_writes in Hwf. rewrite forallb_forall in Hwf.
  apply Hwf. apply (nth_error_In _ _ Ep).
Qed.

Lemma nolive_hasw (w : list (option nat)) : nolive (map isSb w) = true -> hasw w = false.
Proof.
  intros H. apply hasw_false. unfold nwhl, nolive in *. induction w as [|a r IH]; [reflexivity|].
  cbn in H. apply andb_true_iff in H. destruct H as [Ha Hr]. specialize (IH Hr).
  unfold list_sum in *. cbn. destruct a; cbn in *; [discriminate|exact IH].
Qed.
Lemma forallb_false_ex {A} (f : A -> bool) (l : list A) : forallb f l = false -> exists x, In x l /\ f x = false.
Proof.
  induction l as [|a r IH]; cbn; intros H; [discriminate|].
  destruct (f a) eqn:E; [destruct (IH H) as [x [Hx Hf]]; exists x; auto|exists a; auto].
Qed.
(* every pc except the two lock acquisitions (and the end of the program) is enabled in every state *)
Lemma step_enabled t c g l :
  at_ l <> L_lock -> at_ l <> W_lock -> (at_ l = Idle -> prog l <> []) -> exists r, tstep t c g l = Some r.
Proof.
  intros H1 H2 H3. destruct (at_ l) eqn:Ep; try congruence.
  1: { destruct (prog l) as [|o r0] eqn:Epr; [exfalso; apply H3; auto|]. apply (invoke_enabled t c g l o r0 Ep Epr). }
  all: unfold tstep; rewrite Ep; unfold rd_begin, rd_end, wr_begin, wr_end, touch, srd_begin, swr_begin;
       try (destruct (zmem _ _)); try (destruct (_ =? 0)); eexists; reflexivity.
Qed.

(* in every reachable, unfinished state of such programs some step that is not a drain retry is enabled *)
Lemma progress_step nw ns x pl progs s :
  R nw ns x pl progs s -> releases_writes nw progs = true -> all_fin glob loc fin s = false ->
  exists t c l r, nth_error (thr s) t = Some l /\ tstep t c (gl s) l = Some r /\ is_retry (gl s) l = false.
Proof.
  intros HR Hwf Hnf. destruct (R_inv2 _ _ _ _ _ _ HR Hwf) as [HI HW].
  destruct (existsb (fun l => rgpc (at_ l)) (thr s)) eqn:Erd.
  - (* a thread registered in a reader counter (inside lock_shared / lock()): it can always move *)
    apply existsb_exists in Erd. destruct Erd as [l [Hin Hp]]. apply In_nth_error in Hin. destruct Hin as [t Hl].
    destruct (registered_enabled t 0%nat (gl s) l Hp) as [r Hr]. exists t, 0%nat, l, r. repeat split; auto.
    unfold is_retry. destruct (at_ l); try discriminate; reflexivity.
  - (* nobody is registered: both counters are zero, no drain loop goes round *)
    assert (Hz : forall k, ctr (gl s) k = 0).
    { intros k. rewrite (counters_count _ _ _ _ _ _ k HR). rewrite all_zero_sum; [reflexivity|].
      intros u lu Hu. unfold reg. destruct (rgpc (at_ lu)) eqn:E; [|reflexivity]. exfalso.
      assert (existsb (fun l => rgpc (at_ l)) (thr s) = true); [|congruence].
      apply existsb_exists. exists lu. split; [apply (nth_error_In _ _ Hu)|exact E]. }
    assert (Hnr : forall l, is_retry (gl s) l = false).
    { intros l. unfold is_retry. destruct (at_ l); try reflexivity; rewrite Hz; reflexivity. }
    assert (Hmove : forall u lu, nth_error (thr s) u = Some lu -> at_ lu <> L_lock -> opc (at_ lu) = false ->
                    fin lu = false ->
                    exists t c l r, nth_error (thr s) t = Some l /\ tstep t c (gl s) l = Some r /\ is_retry (gl s) l = false).
    { intros u lu Hu Hnl Hop Hf. destruct (step_enabled u 0%nat (gl s) lu) as [r Hr]; auto.
      - intros E. rewrite E in Hop. discriminate.
      - intros E Hpr. unfold fin in Hf. rewrite E, Hpr in Hf. discriminate.
      - exists u, 0%nat, lu, r. auto. }
    destruct (omtx (gl s)) as [a|] eqn:Hm.
    + destruct (I_oheld _ _ HI _ Hm) as [la [Ha Hown]].
      destruct (opc (at_ la)) eqn:Eo.
      * destruct (owner_enabled _ _ _ _ _ _ _ _ 0%nat HR Ha Eo) as (l0 & r & E0 & Hr).
        assert (l0 = la) by congruence. subst l0. exists a, 0%nat, la, r. auto.
      * (* the owner holds a write handle between two operations: its program is not finished, it is not in lock() *)
        unfold owns in Hown. rewrite Eo in Hown. cbn in Hown. pose proof (HW _ _ Ha) as Hwl. unfold wfl in Hwl.
        apply (Hmove a la Ha).
        -- intros E. rewrite E in Hwl. cbn in Hwl. destruct Hwl as (Hn & _). rewrite (nolive_hasw _ Hn) in Hown. discriminate.
        -- exact Eo.
        -- unfold fin. destruct (at_ la) eqn:Ep; try reflexivity. destruct (prog la) eqn:Epr; [|reflexivity].
           cbn in Hwl. rewrite (nolive_hasw _ Hwl) in Hown. discriminate.
    + unfold all_fin in Hnf. apply forallb_false_ex in Hnf. destruct Hnf as [l [Hin Hf]].
      apply In_nth_error in Hin. destruct Hin as [t Hl].
      destruct (opc (at_ l)) eqn:Eo.
      { assert (E : owns l = true) by (unfold owns; rewrite Eo; reflexivity).
        pose proof (I_oown _ _ HI _ _ Hl E). congruence. }
      destruct (at_ l) eqn:Hp; try (apply (Hmove t l Hl); [rewrite Hp; discriminate|rewrite Hp; exact Eo|exact Hf]).
      destruct (lock_enabled_when_free t 0%nat (gl s) l Hp Hm) as [r Hr]. exists t, 0%nat, l, r. auto.
Qed.

Lemma mu_step_dec (s : sysR) t c l g' l' es :
  nth_error (thr s) t = Some l -> tstep t c (gl s) l = Some (g', l', es) -> is_retry (gl s) l = false ->
  stepR s (t, c) = Sys g' (upd (thr s) t l') /\ (mu (Sys g' (upd (thr s) t l')) < mu s)%nat.
Proof.
  intros Hl Hs Hr. split.
  - unfold step, sys_step. rewrite Hl, Hs. reflexivity.
  - pose proof (wloc_step _ _ _ _ _ _ _ Hs) as Hw. rewrite Hr in Hw.
    pose proof (sum_upd wloc (thr s) t l l' Hl) as E. unfold mu. cbn [thr]. lia.
Qed.

(* from EVERY reachable state of programs that give back every write handle they take (and do not call lock()
   while holding one) some schedule of at most mu(s) steps finishes every thread: readers and writers cannot
   deadlock or livelock each other, whatever snapshots are kept *)
Lemma eventually_finishes nw ns x pl progs s :
  R nw ns x pl progs s -> releases_writes nw progs = true ->
  exists sc, (length sc <= mu s)%nat /\ all_fin glob loc fin (runR s sc) = true.
Proof.
  intros HR Hwf. remember (mu s) as n eqn:En. assert (Hle : (mu s <= n)%nat) by lia. clear En.
  revert s HR Hle. induction n as [|n IH]; intros s HR Hle.
  - exists []. split; [cbn; lia|]. cbn.
    destruct (all_fin glob loc fin s) eqn:Ef; [reflexivity|exfalso].
    destruct (progress_step _ _ _ _ _ _ HR Hwf Ef) as (t & c & l & [[g' l'] es] & Hl & Hs & Hr).
    destruct (mu_step_dec s t c l g' l' es Hl Hs Hr) as [_ Hd]. lia.
  - destruct (all_fin glob loc fin s) eqn:Ef; [exists []; split; [cbn; lia|exact Ef]|].
    destruct (progress_step _ _ _ _ _ _ HR Hwf Ef) as (t & c & l & [[g' l'] es] & Hl & Hs & Hr).
    destruct (mu_step_dec s t c l g' l' es Hl Hs Hr) as [Est Hd].
    destruct (IH (stepR s (t, c))) as [sc [Hlen Hfin]].
    + apply R_step. exact HR.
    + rewrite Est. lia.
    + exists ((t, c) :: sc). split; [cbn [length]; lia|exact Hfin].
Qed.
Definition cow_eventually_finishes := eventually_finishes.

(* non-vacuity of the hypothesis: a writer that moves its handle, cancels the moved-from object and keeps a snapshot
   for ever; a reader that also writes; and the two ways to violate it (a handle that is never given back; lock()
   re-entered while a handle is live) *)
Lemma releases_writes_example :
  releases_writes 2 [[LockShared 10 0; Lock 0; Write 0 10; Move 0 1; Cancel 0; Incr 1; ReleaseUnw 1; Release 0];
                     [LockShared 10 0; ReadSnap 0; Lock 1; ReadH 1; Cancel 1; DropSnap 0; Lock 0; Release 0]] = true /\
  releases_writes 1 [[Lock 0; Write 0 10]] = false /\
  releases_writes 2 [[Lock 0; Lock 1; Release 1; Release 0]] = false.
Proof. repeat split; reflexivity. Qed.
