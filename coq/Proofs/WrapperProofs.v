(* Invariants and progress facts for the Wrapper model (properties C01, C08; basis for C02, C15, C20). *)
From Coq Require Import List Arith ZArith Lia Bool.
Import ListNotations.
From GV Require Import Sched Events WrapperModel.
Local Open Scope Z_scope.

Arguments acquire : simpl never.
Arguments release : simpl never.
Arguments exec_mi : simpl never.
Arguments wop_code : simpl never.
Arguments acq_of : simpl never.
Arguments do_move : simpl never.
Arguments after_rel : simpl never.
Arguments slot : simpl never.
Arguments in_range : simpl never.
Arguments locking : simpl never.
Arguments use_code : simpl never.
Arguments cas_branch : simpl never.

Notation sysW := (sys glob loc).
Definition R (cf : config) (progs : list (list op)) (s : sysW) : Prop :=
  reachable glob loc (tstep cf) (init cf progs) s.

Ltac step_cases Hs :=
  unfold tstep in Hs; cbn [at_ prog slots] in Hs;
  repeat match type of Hs with
         | context [match ?x with _ => _ end] => destruct x eqn:?; cbn [at_ prog slots] in Hs
         | context [if ?x then _ else _] => destruct x eqn:?; cbn [at_ prog slots] in Hs
         end;
  try discriminate; inversion Hs; subst; clear Hs.

(* ---------- counting over the slots ---------- *)
Definition b2n (b : bool) : nat := if b then 1%nat else 0%nat.
Definition oh (f : handle -> nat) (o : option handle) : nat := match o with Some x => f x | None => 0%nat end.
Definition cnt (f : handle -> nat) (sl : list (option handle)) : nat := list_sum (map (oh f) sl).

Lemma slot_nth sl h : (h < length sl)%nat -> nth_error sl h = Some (slot sl h).
Proof.
  intros Hl. unfold slot. destruct (nth_error sl h) eqn:E; [reflexivity|].
  apply nth_error_None in E. lia.
Qed.
Lemma slot_some_lt sl h x : slot sl h = Some x -> (h < length sl)%nat.
Proof.
  unfold slot. intros H. destruct (nth_error sl h) eqn:E; [|discriminate].
  apply nth_error_Some. congruence.
Qed.
Lemma slot_upd_eq sl h y : (h < length sl)%nat -> slot (upd sl h y) h = y.
Proof. intros Hl. unfold slot. rewrite (nth_upd_eq _ _ _ _ (slot_nth _ _ Hl)). reflexivity. Qed.
Lemma slot_upd_ne sl h k y : h <> k -> slot (upd sl h y) k = slot sl k.
Proof. intros Hn. unfold slot. rewrite nth_upd_ne by exact Hn. reflexivity. Qed.
Lemma cnt_upd f sl h y : (h < length sl)%nat ->
  (cnt f (upd sl h y) + oh f (slot sl h) = cnt f sl + oh f y)%nat.
Proof. intros Hl. unfold cnt. apply (sum_upd (oh f) sl h (slot sl h) y). apply slot_nth. exact Hl. Qed.
Lemma cnt_ge f sl h x : slot sl h = Some x -> (f x <= cnt f sl)%nat.
Proof.
  intros Hs. pose proof (slot_some_lt _ _ _ Hs) as Hl.
  pose proof (cnt_upd f sl h None Hl) as E. rewrite Hs in E. cbn in E. lia.
Qed.
Lemma cnt_move f sl src dst x : slot sl src = Some x -> src <> dst -> (dst < length sl)%nat ->
  (cnt f (do_move sl src dst) + oh f (slot sl dst) = cnt f sl + f (disown x))%nat.
Proof.
  intros Hs Hne Hd. unfold do_move. rewrite Hs.
  pose proof (slot_some_lt _ _ _ Hs) as Hl.
  pose proof (cnt_upd f sl dst (Some x) Hd) as E1.
  assert (src < length (upd sl dst (Some x)))%nat as Hl2 by (rewrite upd_length; exact Hl).
  pose proof (cnt_upd f (upd sl dst (Some x)) src (Some (disown x)) Hl2) as E2.
  rewrite slot_upd_ne in E2 by auto. rewrite Hs in E2. cbn [oh] in *. lia.
Qed.
Lemma cnt_zero f sl : (forall h x, slot sl h = Some x -> f x = 0%nat) -> cnt f sl = 0%nat.
Proof.
  induction sl as [|o r IH]; intros H; [reflexivity|].
  change (cnt f (o :: r)) with (oh f o + cnt f r)%nat.
  rewrite IH.
  - destruct o as [x|]; cbn [oh]; [|reflexivity]. rewrite (H 0%nat x eq_refl). reflexivity.
  - intros h x Hx. apply (H (S h) x). exact Hx.
Qed.

(* locks owned, per handle / per pc / per thread *)
Definition hx (cf : config) (x : handle) : nat := b2n (hown x && negb (hsh x && shcap cf)).
Definition hs (cf : config) (x : handle) : nat := b2n (hown x && (hsh x && shcap cf)).
Definition gmode (cf : config) (o : op) : bool :=
  match wop_code cf o with Some (gsh, _) => gsh && shcap cf | None => false end.
Definition pcx (cf : config) (p : pc) : nat :=
  match p with
  | HRelOld _ new => hx cf new
  | Run (FGuard o _) _ _ _ _ | GRel o _ _ _ => b2n (negb (gmode cf o))
  | _ => 0%nat
  end.
Definition pcs (cf : config) (p : pc) : nat :=
  match p with
  | HRelOld _ new => hs cf new
  | Run (FGuard o _) _ _ _ _ | GRel o _ _ _ => b2n (gmode cf o)
  | _ => 0%nat
  end.
Definition lx (cf : config) (l : loc) : nat := (pcx cf (at_ l) + cnt (hx cf) (slots l))%nat.
Definition lsh (cf : config) (l : loc) : nat := (pcs cf (at_ l) + cnt (hs cf) (slots l))%nat.

Lemma hx_disown cf x : hx cf (disown x) = 0%nat. Proof. reflexivity. Qed.
Lemma hs_disown cf x : hs cf (disown x) = 0%nat. Proof. reflexivity. Qed.
Lemma hx_nulled cf x : hx cf (nulled x) = 0%nat. Proof. reflexivity. Qed.
Lemma hs_nulled cf x : hs cf (nulled x) = 0%nat. Proof. reflexivity. Qed.

(* ---------- thread-local shape invariant ---------- *)
Definition locok (cf : config) (l : loc) : Prop :=
  length (slots l) = NSLOTS /\
  match at_ l with
  | Idle => True
  | HAcq h _ _ => (h < NSLOTS)%nat /\ locking cf = true
  | HRelOld h _ => exists old, slot (slots l) h = Some old /\ hown old = true
  | HRel k => (exists old, slot (slots l) (rel_slot k) = Some old /\ hown old = true) /\
              match k with RMove src dst => src <> dst /\ slot (slots l) src <> None | _ => True end
  | GAcq o => wop_code cf o <> None
  | Run fr code _ _ _ => code <> [] /\ match fr with FGuard o _ => wop_code cf o <> None | FUse _ => True end
  | GRel o _ _ _ => wop_code cf o <> None
  end.

Lemma in_range_lt h : in_range h = true <-> (h < NSLOTS)%nat.
Proof. unfold in_range. apply Nat.ltb_lt. Qed.

Lemma wop_code_nonempty cf o gsh code : wop_code cf o = Some (gsh, code) -> code <> [].
Proof.
  unfold wop_code. destruct o; try discriminate;
    repeat match goal with |- context [if ?b then _ else _] => destruct b end;
    intros H; inversion H; subst; discriminate.
Qed.
Lemma use_code_nonempty a : use_code a <> [].
Proof. destruct a; discriminate. Qed.
Lemma cas_branch_nonempty ok d : cas_branch ok d <> [].
Proof. destruct ok; discriminate. Qed.

Lemma do_move_length sl src dst : length (do_move sl src dst) = length sl.
Proof. unfold do_move. destruct (slot sl src); [|reflexivity]. rewrite !upd_length. reflexivity. Qed.
Lemma after_rel_length k sl : length (after_rel k sl) = length sl.
Proof.
  unfold after_rel. destruct k.
  - destruct (slot sl h); [apply upd_length|reflexivity].
  - apply upd_length.
  - apply do_move_length.
Qed.

Lemma locok_step cf t c g l g' l' es :
  locok cf l -> tstep cf t c g l = Some (g', l', es) -> locok cf l'.
Proof.
  intros [Hlen Hpc] Hs. destruct l as [pr p sl]. cbn [at_ slots] in *.
  step_cases Hs; unfold locok; cbn [at_ slots]; rewrite ?upd_length, ?do_move_length, ?after_rel_length.
  all: split; [exact Hlen|]; try exact I.
  all: repeat match goal with
       | H : negb _ = false |- _ => apply negb_false_iff in H
       | H : negb _ = true |- _ => apply negb_true_iff in H
       | H : _ || _ = false |- _ => apply orb_false_iff in H; destruct H
       | H : in_range _ = true |- _ => apply in_range_lt in H
       | H : Nat.eqb _ _ = false |- _ => apply Nat.eqb_neq in H
       end.
  all: try solve [ split; auto
                 | eexists; split; eauto
                 | split; [eexists; split; eauto | try exact I; try (split; [assumption | congruence]) ]
                 | congruence
                 | split; [apply use_code_nonempty | exact I] ].
  all: try solve [ destruct Hpc as [Hp1 Hp2];
                   first [ split; [congruence | assumption]
                         | split; [discriminate | assumption]
                         | assumption ] ].
  all: try (destruct Hpc as [Hp1 Hp2]).
  all: try solve [ split; [ eapply wop_code_nonempty; eauto | congruence ] ].
  all: try solve [ split; [ destruct (m_rest _); [congruence|congruence] | assumption ] ].
Qed.

(* ---------- per-thread views ---------- *)
Definition loc0 : loc := Loc [] Idle [].
Definition locof (ls : list loc) (u : nat) : loc := match nth_error ls u with Some l => l | None => loc0 end.
Lemma locof_upd ls t l l' u : nth_error ls t = Some l ->
  locof (upd ls t l') u = if Nat.eqb u t then l' else locof ls u.
Proof.
  intros H. unfold locof. destruct (Nat.eqb_spec u t) as [->|Hne].
  - rewrite (nth_upd_eq _ _ _ _ H). reflexivity.
  - rewrite nth_upd_ne by auto. reflexivity.
Qed.
Lemma locof_at ls t l : nth_error ls t = Some l -> locof ls t = l.
Proof. intros H. unfold locof. rewrite H. reflexivity. Qed.
Arguments locof : simpl never.

(* ---------- the mutex ---------- *)
Definition own1 (g : glob) (u : nat) : nat :=
  match owner g with Some a => b2n (Nat.eqb a u) | None => 0%nat end.
Definition shc (g : glob) (u : nat) : nat := count_occ Nat.eq_dec (sharers g) u.

Lemma count_occ_remove1 t l u :
  count_occ Nat.eq_dec (remove1 t l) u = if Nat.eqb u t then pred (count_occ Nat.eq_dec l t) else count_occ Nat.eq_dec l u.
Proof.
  induction l as [|x r IH]; cbn [remove1 count_occ].
  - destruct (Nat.eqb u t); reflexivity.
  - destruct (Nat.eqb_spec t x) as [Etx|Hne].
    + subst x. destruct (Nat.eq_dec t t) as [_|Hn]; [|congruence].
      destruct (Nat.eqb_spec u t) as [Eut|Hux].
      * subst u. reflexivity.
      * destruct (Nat.eq_dec t u); [congruence|reflexivity].
    + cbn [count_occ]. rewrite IH. clear IH.
      destruct (Nat.eqb_spec u t) as [Eut|Hut].
      * subst u. destruct (Nat.eq_dec x t); [congruence|reflexivity].
      * reflexivity.
Qed.

(* what a step of thread t did to the mutex: nothing, took it, or released it (in actual mode sm) *)
Definition mrel (t : nat) (k : option (bool * bool)) (g g' : glob) : Prop :=
  match k with
  | None => owner g' = owner g /\ sharers g' = sharers g
  | Some (true, sm) => obtainable sm g = true /\ owner g' = owner (take sm t g) /\ sharers g' = sharers (take sm t g)
  | Some (false, sm) => owner g' = owner (drop sm t g) /\ sharers g' = sharers (drop sm t g)
  end.
Definition addx (k : option (bool * bool)) : nat := match k with Some (true, false) => 1%nat | _ => 0%nat end.
Definition subx (k : option (bool * bool)) : nat := match k with Some (false, false) => 1%nat | _ => 0%nat end.
Definition adds (k : option (bool * bool)) : nat := match k with Some (true, true) => 1%nat | _ => 0%nat end.
Definition subs (k : option (bool * bool)) : nat := match k with Some (false, true) => 1%nat | _ => 0%nat end.

Record Inv1 (cf : config) (g : glob) (ls : list loc) : Prop := {
  I_ok : forall u l, nth_error ls u = Some l -> locok cf l;
  I_x : forall u, lx cf (locof ls u) = own1 g u;
  I_s : forall u, lsh cf (locof ls u) = shc g u;
  I_m : owner g <> None -> sharers g = []
}.

Lemma Inv1_upd cf g ls t l g' l' k :
  Inv1 cf g ls -> nth_error ls t = Some l -> locok cf l' -> mrel t k g g' ->
  (lx cf l' + subx k = lx cf l + addx k)%nat -> (lsh cf l' + subs k = lsh cf l + adds k)%nat ->
  Inv1 cf g' (upd ls t l').
Proof.
  intros HI Hl Hok Hm Hx Hs.
  pose proof (I_x _ _ _ HI) as IX. pose proof (I_s _ _ _ HI) as IS. pose proof (I_m _ _ _ HI) as IM.
  pose proof (IX t) as IXt. pose proof (IS t) as ISt. rewrite (locof_at _ _ _ Hl) in IXt, ISt.
  unfold own1, shc in *.
  constructor.
  - intros u l0 Hu. destruct (nth_upd _ _ _ _ _ Hu) as [[-> [-> _]]|[_ Hu']]; [exact Hok|]. eapply I_ok; eauto.
  - intros u. rewrite (locof_upd _ _ _ _ _ Hl). specialize (IX u). unfold own1.
    destruct k as [[[|] [|]]|]; cbn [mrel addx subx adds subs take drop set_mutex owner sharers obtainable] in *.
    + destruct Hm as [Hf [Ho Hsh]]. rewrite Ho. destruct (Nat.eqb_spec u t) as [->|Hne]; [lia|exact IX].
    + destruct Hm as [Hf [Ho Hsh]]. unfold free_x in Hf. rewrite Ho.
      destruct (owner g) eqn:Eo; [discriminate|]. cbn.
      destruct (Nat.eqb_spec u t) as [->|Hne].
      * rewrite Nat.eqb_refl. cbn. lia.
      * destruct (Nat.eqb_spec t u); [congruence|]. cbn. lia.
    + destruct Hm as [Ho Hsh]. rewrite Ho. destruct (Nat.eqb_spec u t) as [->|Hne]; [lia|exact IX].
    + destruct Hm as [Ho Hsh]. rewrite Ho.
      destruct (owner g) as [a|] eqn:Eo; [|cbn in IXt; lia].
      destruct (Nat.eqb_spec a t) as [->|Hat]; [|cbn in IXt; lia].
      destruct (Nat.eqb_spec u t) as [->|Hne]; [cbn in *; lia|].
      destruct (Nat.eqb_spec t u); [congruence|]. cbn in IX. exact IX.
    + destruct Hm as [Ho Hsh]. rewrite Ho. destruct (Nat.eqb_spec u t) as [->|Hne]; [lia|exact IX].
  - intros u. rewrite (locof_upd _ _ _ _ _ Hl). specialize (IS u). unfold shc.
    destruct k as [[[|] [|]]|]; cbn [mrel addx subx adds subs take drop set_mutex owner sharers obtainable] in *.
    + destruct Hm as [Hf [Ho Hsh]]. rewrite Hsh. rewrite count_occ_app. cbn [count_occ].
      destruct (Nat.eqb_spec u t) as [->|Hne].
      * destruct (Nat.eq_dec t t); [lia|congruence].
      * destruct (Nat.eq_dec t u); [congruence|lia].
    + destruct Hm as [Hf [Ho Hsh]]. rewrite Hsh. destruct (Nat.eqb_spec u t) as [->|Hne]; [lia|exact IS].
    + destruct Hm as [Ho Hsh]. rewrite Hsh. rewrite count_occ_remove1.
      destruct (Nat.eqb_spec u t) as [->|Hne]; [lia|exact IS].
    + destruct Hm as [Ho Hsh]. rewrite Hsh. destruct (Nat.eqb_spec u t) as [->|Hne]; [lia|exact IS].
    + destruct Hm as [Ho Hsh]. rewrite Hsh. destruct (Nat.eqb_spec u t) as [->|Hne]; [lia|exact IS].
  - destruct k as [[[|] [|]]|]; cbn [mrel addx subx adds subs take drop set_mutex owner sharers obtainable] in *.
    + destruct Hm as [Hf [Ho Hsh]]. unfold free_s in Hf. rewrite Ho. destruct (owner g); [discriminate|]. congruence.
    + destruct Hm as [Hf [Ho Hsh]]. unfold free_x in Hf. rewrite Hsh. intros _.
      destruct (owner g); [discriminate|]. destruct (sharers g); [reflexivity|discriminate].
    + destruct Hm as [Ho Hsh]. rewrite Ho, Hsh. intros Hn. rewrite (IM Hn). reflexivity.
    + destruct Hm as [Ho Hsh]. rewrite Ho. congruence.
    + destruct Hm as [Ho Hsh]. rewrite Ho, Hsh. exact IM.
Qed.

(* ---------- the primitive operations ---------- *)
Lemma acquire_true am sm t c g g' e : acquire am sm t c g = Some (g', true, e) ->
  obtainable sm g = true /\ g' = set_nacq (take sm t g) (S (nacq g)).
Proof.
  unfold acquire. destruct am; destruct (obtainable sm g) eqn:Eo; cbn; intros H; try discriminate; inversion H; auto.
  destruct (Nat.eqb c 2); inversion H.
Qed.
Lemma acquire_false am sm t c g g' e : acquire am sm t c g = Some (g', false, e) ->
  obtainable sm g = false /\ g' = g.
Proof.
  unfold acquire. destruct am; destruct (obtainable sm g) eqn:Eo; cbn; intros H; try discriminate; inversion H; auto.
  destruct (Nat.eqb c 2); inversion H; auto.
Qed.
Lemma acquire_block sm t c g g' ok e : acquire ABlock sm t c g = Some (g', ok, e) -> ok = true.
Proof. unfold acquire. destruct (obtainable sm g); intros H; inversion H; reflexivity. Qed.
Lemma release_eq sm t i g g' e : release sm t i g = (g', e) -> g' = add_released (drop sm t g) i.
Proof. unfold release. intros H. inversion H. reflexivity. Qed.

Lemma mrel_take sm t g n : obtainable sm g = true -> mrel t (Some (true, sm)) g (set_nacq (take sm t g) n).
Proof. intros H. cbn. destruct sm; cbn; auto. Qed.
Lemma mrel_drop sm t g i : mrel t (Some (false, sm)) g (add_released (drop sm t g) i).
Proof. cbn. destruct sm; cbn; auto. Qed.
Lemma exec_mi_mutex cf t i ph r ok g :
  owner (m_g (exec_mi cf t i ph r ok g)) = owner g /\ sharers (m_g (exec_mi cf t i ph r ok g)) = sharers g.
Proof.
  unfold exec_mi. destruct i as [fid snap| |tg s| |e d]; cbn.
  - destruct (existsb _ _); cbn; auto.
  - destruct ph; cbn; auto.
  - destruct tg; destruct ph; cbn; auto.
  - destruct ph as [|[|[|ph]]]; cbn; auto.
  - destruct ph; cbn; auto.
Qed.

Lemma Inv1_init cf progs : Inv1 cf (gl (init cf progs)) (thr (init cf progs)).
Proof.
  assert (P : forall u, locof (thr (init cf progs)) u = loc0 \/ exists p, locof (thr (init cf progs)) u = Loc p Idle (repeat None NSLOTS)).
  { intros u. unfold locof, init. cbn [thr]. rewrite nth_error_map. destruct (nth_error progs u); cbn; eauto. }
  constructor.
  - intros u l Hu. unfold init in Hu. cbn [thr] in Hu. rewrite nth_error_map in Hu.
    destruct (nth_error progs u); inversion Hu; subst. split; cbn; auto.
  - intros u. destruct (P u) as [->|[p ->]]; reflexivity.
  - intros u. destruct (P u) as [->|[p ->]]; reflexivity.
  - reflexivity.
Qed.

(* ---------- preservation of the lock accounting ---------- *)
Ltac bool_hyps :=
  repeat match goal with
  | H : negb _ = false |- _ => apply negb_false_iff in H
  | H : negb _ = true |- _ => apply negb_true_iff in H
  | H : _ || _ = false |- _ => apply orb_false_iff in H; destruct H
  | H : in_range _ = true |- _ => apply in_range_lt in H
  | H : Nat.eqb _ _ = false |- _ => apply Nat.eqb_neq in H
  end.
(* pose the counting equations of every updated slot table in the goal *)
Ltac cnt_facts cf sl0 Hlen :=
  repeat match goal with
  | |- context [cnt ?f (upd ?sl ?h ?y)] =>
    lazymatch goal with
    | _ : (cnt f (upd sl h y) + _ = _)%nat |- _ => fail
    | _ => let E := fresh "EC" in
           assert (cnt f (upd sl h y) + oh f (slot sl h) = cnt f sl + oh f y)%nat as E
             by (apply cnt_upd; first [ lia | eapply slot_some_lt; eassumption ]);
           generalize dependent (cnt f (upd sl h y)); intros
    end
  end.
Ltac hx_simpl := unfold hx, hs, b2n in *; cbn [hown hsh hnn hid oh disown nulled] in *.

Lemma Inv1_step cf : forall g ls t c l g' l' es,
  Inv1 cf g ls -> nth_error ls t = Some l -> tstep cf t c g l = Some (g', l', es) -> Inv1 cf g' (upd ls t l').
Proof.
  intros g ls t c l g' l' es HI Hl Hs.
  pose proof (locok_step _ _ _ _ _ _ _ _ (I_ok _ _ _ HI _ _ Hl) Hs) as Hok'.
  destruct (I_ok _ _ _ HI _ _ Hl) as [Hlen Hpc].
  destruct l as [pr p sl]. cbn [at_ slots] in *.
  step_cases Hs; bool_hyps.
  all: try match goal with H : acquire ABlock _ _ _ _ = Some (_, ?b, _) |- _ => pose proof (acquire_block _ _ _ _ _ _ _ H); subst b end.
  all: try match goal with H : acquire _ _ _ _ _ = Some (_, ?b, _) |- _ => is_var b; destruct b end.
  all: first
    [ match goal with H : acquire _ ?sm _ _ _ = Some (_, true, _) |- _ =>
        destruct (acquire_true _ _ _ _ _ _ _ H) as [Hobt ->];
        eapply (Inv1_upd cf _ ls t _ _ _ (Some (true, sm)) HI Hl Hok'); [exact (mrel_take _ _ _ _ Hobt)| |] end
    | match goal with H : acquire _ ?sm _ _ _ = Some (_, false, _) |- _ =>
        destruct (acquire_false _ _ _ _ _ _ _ H) as [Hobt ->];
        eapply (Inv1_upd cf _ ls t _ _ _ None HI Hl Hok'); [split; reflexivity| |] end
    | match goal with H : release ?sm _ _ _ = (_, _) |- _ =>
        rewrite (release_eq _ _ _ _ _ _ H);
        eapply (Inv1_upd cf _ ls t _ _ _ (Some (false, sm)) HI Hl Hok'); [exact (mrel_drop _ _ _ _)| |] end
    | match goal with |- context [exec_mi ?a ?b ?c ?d ?e ?f ?g0] =>
        eapply (Inv1_upd cf _ ls t _ _ _ None HI Hl Hok'); [exact (exec_mi_mutex a b c d e f g0)| |] end
    | eapply (Inv1_upd cf _ ls t _ _ _ None HI Hl Hok'); [split; reflexivity| |]
    | idtac "NOAPP"; match goal with |- ?G => idtac G end; give_up ].
  all: unfold lx, lsh; cbn [at_ slots pcx pcs addx subx adds subs].
  all: try lia.
  all: try match goal with |- context [after_rel ?k _] => destruct k; unfold after_rel; cbn [rel_slot] in * end.
  all: repeat match goal with
       | H : exists _, _ |- _ => destruct H
       | H : _ /\ _ |- _ => destruct H
       end.
  all: try match goal with H : slot ?sl ?s <> None |- _ => destruct (slot sl s) eqn:?; [|congruence] end.
  all: try match goal with |- context [do_move ?sl ?s ?d] =>
         match goal with Hs : slot sl s = Some ?x |- _ =>
           let E1 := fresh "EM" in let E2 := fresh "EM" in
           assert (d < length sl)%nat by first [ lia | eapply slot_some_lt; eassumption ];
           pose proof (cnt_move (hx cf) sl s d x Hs ltac:(assumption) ltac:(assumption)) as E1;
           pose proof (cnt_move (hs cf) sl s d x Hs ltac:(assumption) ltac:(assumption)) as E2;
           rewrite ?hx_disown, ?hs_disown in *
         end end.
  all: repeat match goal with H : slot _ ?h = _ |- _ => rewrite H in * end.
  all: repeat match goal with H : Some _ = Some _ |- _ => inversion H; clear H; subst end.
  all: cnt_facts cf sl Hlen.
  all: repeat match goal with H : slot _ ?h = _ |- _ => rewrite H in * end.
  all: unfold gmode in *; repeat match goal with H : wop_code _ _ = _ |- _ => rewrite H in * end.
  all: repeat match goal with |- context [cnt ?f ?l] => let C := fresh "C" in set (C := cnt f l) in * end.
  all: hx_simpl.
  all: repeat match goal with
       | H : ?a = true |- _ => rewrite H in *
       | H : ?a = false |- _ => rewrite H in *
       end; cbn [andb negb orb] in *.
  all: try lia.
  all: repeat match goal with
       | |- context [if ?b then _ else _] => destruct b eqn:?
       | H : context [if ?b then _ else _] |- _ => destruct b eqn:?
       end; cbn [andb negb orb] in *; try lia.
Qed.
