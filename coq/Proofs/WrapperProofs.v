(* Invariants and progress facts for the Wrapper model (properties C01, C08; basis for C02, C15, C20). *)
From Coq Require Import List Arith ZArith Lia Bool.
Import ListNotations.
From GV Require Import Sched Events WrapperModel.
Local Open Scope Z_scope.

Arguments acquire : simpl never.
Arguments release : simpl never.
Arguments exec_mi : simpl never.
Arguments wop_code : simpl never.
Arguments acq_of : simpl never.
Arguments do_move : simpl never.
Arguments after_rel : simpl never.
Arguments slot : simpl never.
Arguments in_range : simpl never.
Arguments locking : simpl never.
Arguments use_code : simpl never.
Arguments cas_branch : simpl never.

Notation sysW := (sys glob loc).
Definition R (cf : config) (progs : list (list op)) (s : sysW) : Prop :=
  reachable glob loc (tstep cf) (init cf progs) s.

Ltac step_cases Hs :=
  unfold tstep0 in Hs; cbn [at_ prog slots] in Hs;
  repeat match type of Hs with
         | context [match ?x with _ => _ end] => destruct x eqn:?; cbn [at_ prog slots] in Hs
         | context [if ?x then _ else _] => destruct x eqn:?; cbn [at_ prog slots] in Hs
         end;
  try discriminate; inversion Hs; subst; clear Hs.

(* ---------- from the steps of the instrumented kind (tstep0) to the steps of both kinds (tstep) ---------- *)
(* A step of the plain kind is a tstep0 step followed by tstep0 steps of the same thread (settle), so whatever
   tstep0 preserves, tstep preserves; enabledness is that of tstep0. *)
Global Opaque SETTLE_FUEL.
Lemma upd_same {A} (l : list A) i x : nth_error l i = Some x -> upd l i x = l.
Proof. revert i; induction l as [|a r IH]; intros [|i] H; cbn in *; try discriminate; [inversion H; reflexivity|f_equal; auto]. Qed.
Lemma upd_upd {A} (l : list A) i x y : upd (upd l i x) i y = upd l i y.
Proof. revert i; induction l as [|a r IH]; intros [|i]; cbn; try reflexivity. f_equal. apply IH. Qed.

Lemma tstep_none cf t c g l : tstep cf t c g l = None <-> tstep0 cf t c g l = None.
Proof.
  unfold tstep. destruct (tstep0 cf t c g l) as [[[g1 l1] es]|]; [|tauto].
  destruct (plain cf); split; discriminate.
Qed.
Lemma tstep_some cf t c g l r : tstep0 cf t c g l = Some r -> exists r', tstep cf t c g l = Some r'.
Proof. intros H. unfold tstep. rewrite H. destruct r as [[g1 l1] es]. destruct (plain cf); eexists; reflexivity. Qed.
Lemma settle_stop cf t fuel g l es : silent_pc (at_ l) = false -> settle cf t fuel g l es = (g, l, es).
Proof. intros H. destruct fuel; cbn [settle]; [reflexivity|]. rewrite H. reflexivity. Qed.
(* a step whose result is not in the middle of invisible accesses is a tstep0 step *)
Lemma tstep_eq0 cf t c g l g' l' es : tstep0 cf t c g l = Some (g', l', es) -> silent_pc (at_ l') = false ->
  tstep cf t c g l = Some (g', l', es).
Proof. intros H Hs. unfold tstep. rewrite H. destruct (plain cf); [rewrite settle_stop by exact Hs|]; reflexivity. Qed.
Lemma tstep_inv cf t c g l r : tstep cf t c g l = Some r ->
  exists g1 l1 es1, tstep0 cf t c g l = Some (g1, l1, es1) /\
    (plain cf = false \/ silent_pc (at_ l1) = false -> r = (g1, l1, es1)) /\
    (plain cf = true -> r = settle cf t SETTLE_FUEL g1 l1 es1).
Proof.
  unfold tstep. destruct (tstep0 cf t c g l) as [[[g1 l1] es1]|]; [|discriminate]. intros H.
  exists g1, l1, es1. split; [reflexivity|]. destruct (plain cf) eqn:Ep; injection H as <-; split.
  - intros [E|E]; [discriminate|]. apply settle_stop. exact E.
  - reflexivity.
  - reflexivity.
  - discriminate.
Qed.

Section Lift.
  Variable cf : config.
  Variable P : glob -> list loc -> Prop.
  Hypothesis P_step0 : forall g ls t c l g' l' es,
    P g ls -> nth_error ls t = Some l -> tstep0 cf t c g l = Some (g', l', es) -> P g' (upd ls t l').
  Lemma settle_inv fuel : forall g ls t l es g2 l2 es2,
    P g ls -> nth_error ls t = Some l -> settle cf t fuel g l es = (g2, l2, es2) -> P g2 (upd ls t l2).
  Proof.
    induction fuel as [|f IH]; intros g ls t l es g2 l2 es2 HP Hl Hs; cbn [settle] in Hs.
    - inversion Hs; subst. rewrite (upd_same _ _ _ Hl). exact HP.
    - destruct (silent_pc (at_ l)); [|inversion Hs; subst; rewrite (upd_same _ _ _ Hl); exact HP].
      destruct (tstep0 cf t 0 g l) as [[[g' l'] es']|] eqn:E; [|inversion Hs; subst; rewrite (upd_same _ _ _ Hl); exact HP].
      pose proof (P_step0 _ _ _ _ _ _ _ _ HP Hl E) as HP'.
      assert (nth_error (upd ls t l') t = Some l') as Hl' by (eapply nth_upd_eq; eauto).
      pose proof (IH _ _ _ _ _ _ _ _ HP' Hl' Hs) as H2. rewrite upd_upd in H2. exact H2.
  Qed.
  Lemma lift_step : forall g ls t c l g' l' es,
    P g ls -> nth_error ls t = Some l -> tstep cf t c g l = Some (g', l', es) -> P g' (upd ls t l').
  Proof.
    intros g ls t c l g' l' es HP Hl Hs. unfold tstep in Hs.
    destruct (tstep0 cf t c g l) as [[[g1 l1] es1]|] eqn:E; [|discriminate].
    pose proof (P_step0 _ _ _ _ _ _ _ _ HP Hl E) as HP1.
    destruct (plain cf); [|inversion Hs; subst; exact HP1].
    injection Hs as Hs'. assert (nth_error (upd ls t l1) t = Some l1) as Hl1 by (eapply nth_upd_eq; eauto).
    pose proof (settle_inv _ _ _ _ _ _ _ _ _ HP1 Hl1 Hs') as H2. rewrite upd_upd in H2. exact H2.
  Qed.
End Lift.

(* ---------- counting over the slots ---------- *)
Definition b2n (b : bool) : nat := if b then 1%nat else 0%nat.
Definition oh (f : handle -> nat) (o : option handle) : nat := match o with Some x => f x | None => 0%nat end.
Definition cnt (f : handle -> nat) (sl : list (option handle)) : nat := list_sum (map (oh f) sl).

Lemma slot_nth sl h : (h < length sl)%nat -> nth_error sl h = Some (slot sl h).
Proof.
  intros Hl. unfold slot. destruct (nth_error sl h) eqn:E; [reflexivity|].
  apply nth_error_None in E. lia.
Qed.
Lemma slot_some_lt sl h x : slot sl h = Some x -> (h < length sl)%nat.
Proof.
  unfold slot. intros H. destruct (nth_error sl h) eqn:E; [|discriminate].
  apply nth_error_Some. congruence.
Qed.
Lemma slot_upd_eq sl h y : (h < length sl)%nat -> slot (upd sl h y) h = y.
Proof. intros Hl. unfold slot. rewrite (nth_upd_eq _ _ _ _ (slot_nth _ _ Hl)). reflexivity. Qed.
Lemma slot_upd_ne sl h k y : h <> k -> slot (upd sl h y) k = slot sl k.
Proof. intros Hn. unfold slot. rewrite nth_upd_ne by exact Hn. reflexivity. Qed.
Lemma cnt_upd f sl h y : (h < length sl)%nat ->
  (cnt f (upd sl h y) + oh f (slot sl h) = cnt f sl + oh f y)%nat.
Proof. intros Hl. unfold cnt. apply (sum_upd (oh f) sl h (slot sl h) y). apply slot_nth. exact Hl. Qed.
Lemma cnt_ge f sl h x : slot sl h = Some x -> (f x <= cnt f sl)%nat.
Proof.
  intros Hs. pose proof (slot_some_lt _ _ _ Hs) as Hl.
  pose proof (cnt_upd f sl h None Hl) as E. rewrite Hs in E. cbn in E. lia.
Qed.
Lemma cnt_move f sl src dst x : slot sl src = Some x -> src <> dst -> (dst < length sl)%nat ->
  (cnt f (do_move sl src dst) + oh f (slot sl dst) = cnt f sl + f (disown x))%nat.
Proof.
  intros Hs Hne Hd. unfold do_move. rewrite Hs.
  pose proof (slot_some_lt _ _ _ Hs) as Hl.
  pose proof (cnt_upd f sl dst (Some x) Hd) as E1.
  assert (src < length (upd sl dst (Some x)))%nat as Hl2 by (rewrite upd_length; exact Hl).
  pose proof (cnt_upd f (upd sl dst (Some x)) src (Some (disown x)) Hl2) as E2.
  rewrite slot_upd_ne in E2 by auto. rewrite Hs in E2. cbn [oh] in *. lia.
Qed.
Lemma cnt_zero f sl : (forall h x, slot sl h = Some x -> f x = 0%nat) -> cnt f sl = 0%nat.
Proof.
  induction sl as [|o r IH]; intros H; [reflexivity|].
  change (cnt f (o :: r)) with (oh f o + cnt f r)%nat.
  rewrite IH.
  - destruct o as [x|]; cbn [oh]; [|reflexivity]. rewrite (H 0%nat x eq_refl). reflexivity.
  - intros h x Hx. apply (H (S h) x). exact Hx.
Qed.

(* locks owned, per handle / per pc / per thread *)
Definition hx (cf : config) (x : handle) : nat := b2n (hown x && negb (hsh x && shcap cf)).
Definition hs (cf : config) (x : handle) : nat := b2n (hown x && (hsh x && shcap cf)).
Definition gmode (cf : config) (o : op) : bool :=
  match wop_code cf o with Some (gsh, _) => gsh && shcap cf | None => false end.
Definition pcx (cf : config) (p : pc) : nat :=
  match p with
  | HRelOld _ new => hx cf new
  | Run (FGuard o _) _ _ _ _ | GRel o _ _ _ => b2n (negb (gmode cf o))
  | _ => 0%nat
  end.
Definition pcs (cf : config) (p : pc) : nat :=
  match p with
  | HRelOld _ new => hs cf new
  | Run (FGuard o _) _ _ _ _ | GRel o _ _ _ => b2n (gmode cf o)
  | _ => 0%nat
  end.
Definition lx (cf : config) (l : loc) : nat := (pcx cf (at_ l) + cnt (hx cf) (slots l))%nat.
Definition lsh (cf : config) (l : loc) : nat := (pcs cf (at_ l) + cnt (hs cf) (slots l))%nat.

Lemma hx_disown cf x : hx cf (disown x) = 0%nat. Proof. reflexivity. Qed.
Lemma hs_disown cf x : hs cf (disown x) = 0%nat. Proof. reflexivity. Qed.
Lemma hx_nulled cf x : hx cf (nulled x) = 0%nat. Proof. reflexivity. Qed.
Lemma hs_nulled cf x : hs cf (nulled x) = 0%nat. Proof. reflexivity. Qed.

(* ---------- thread-local shape invariant ---------- *)
Definition locok (cf : config) (l : loc) : Prop :=
  length (slots l) = NSLOTS /\
  match at_ l with
  | Idle => True
  | HAcq h _ _ => (h < NSLOTS)%nat /\ locking cf = true
  | HRelOld h _ => exists old, slot (slots l) h = Some old /\ hown old = true
  | HRel k => (exists old, slot (slots l) (rel_slot k) = Some old /\ hown old = true) /\
              match k with RMove src dst => src <> dst /\ slot (slots l) src <> None | _ => True end
  | GAcq o => wop_code cf o <> None
  | Run fr code _ _ _ => code <> [] /\ match fr with FGuard o _ => wop_code cf o <> None | FUse _ => True end
  | GRel o _ _ _ => wop_code cf o <> None
  end.

Lemma in_range_lt h : in_range h = true <-> (h < NSLOTS)%nat.
Proof. unfold in_range. apply Nat.ltb_lt. Qed.

Lemma wop_code_nonempty cf o gsh code : wop_code cf o = Some (gsh, code) -> code <> [].
Proof.
  unfold wop_code. destruct o; try discriminate;
    repeat match goal with |- context [if ?b then _ else _] => destruct b end;
    intros H; inversion H; subst; discriminate.
Qed.
Lemma use_code_nonempty a : use_code a <> [].
Proof. destruct a; discriminate. Qed.
Lemma cas_branch_nonempty ok d : cas_branch ok d <> [].
Proof. destruct ok; discriminate. Qed.

Lemma do_move_length sl src dst : length (do_move sl src dst) = length sl.
Proof. unfold do_move. destruct (slot sl src); [|reflexivity]. rewrite !upd_length. reflexivity. Qed.
Lemma after_rel_length k sl : length (after_rel k sl) = length sl.
Proof.
  unfold after_rel. destruct k.
  - destruct (slot sl h); [apply upd_length|reflexivity].
  - apply upd_length.
  - apply do_move_length.
Qed.

Lemma locok_step cf t c g l g' l' es :
  locok cf l -> tstep0 cf t c g l = Some (g', l', es) -> locok cf l'.
Proof.
  intros [Hlen Hpc] Hs. destruct l as [pr p sl]. cbn [at_ slots] in *.
  step_cases Hs; unfold locok; cbn [at_ slots]; rewrite ?upd_length, ?do_move_length, ?after_rel_length.
  all: split; [exact Hlen|]; try exact I.
  all: repeat match goal with
       | H : negb _ = false |- _ => apply negb_false_iff in H
       | H : negb _ = true |- _ => apply negb_true_iff in H
       | H : _ || _ = false |- _ => apply orb_false_iff in H; destruct H
       | H : in_range _ = true |- _ => apply in_range_lt in H
       | H : Nat.eqb _ _ = false |- _ => apply Nat.eqb_neq in H
       end.
  all: try solve [ split; auto
                 | eexists; split; eauto
                 | split; [eexists; split; eauto | try exact I; try (split; [assumption | congruence]) ]
                 | congruence
                 | split; [apply use_code_nonempty | exact I] ].
  all: try solve [ destruct Hpc as [Hp1 Hp2];
                   first [ split; [congruence | assumption]
                         | split; [discriminate | assumption]
                         | assumption ] ].
  all: try (destruct Hpc as [Hp1 Hp2]).
  all: try solve [ split; [ eapply wop_code_nonempty; eauto | congruence ] ].
  all: try solve [ split; [ destruct (m_rest _); [congruence|congruence] | assumption ] ].
Qed.

(* ---------- per-thread views ---------- *)
Definition loc0 : loc := Loc [] Idle [].
Definition locof (ls : list loc) (u : nat) : loc := match nth_error ls u with Some l => l | None => loc0 end.
Lemma locof_upd ls t l l' u : nth_error ls t = Some l ->
  locof (upd ls t l') u = if Nat.eqb u t then l' else locof ls u.
Proof.
  intros H. unfold locof. destruct (Nat.eqb_spec u t) as [->|Hne].
  - rewrite (nth_upd_eq _ _ _ _ H). reflexivity.
  - rewrite nth_upd_ne by auto. reflexivity.
Qed.
Lemma locof_at ls t l : nth_error ls t = Some l -> locof ls t = l.
Proof. intros H. unfold locof. rewrite H. reflexivity. Qed.
Arguments locof : simpl never.

(* ---------- the mutex ---------- *)
Definition own1 (g : glob) (u : nat) : nat :=
  match owner g with Some a => b2n (Nat.eqb a u) | None => 0%nat end.
Definition shc (g : glob) (u : nat) : nat := count_occ Nat.eq_dec (sharers g) u.

Lemma count_occ_remove1 t l u :
  count_occ Nat.eq_dec (remove1 t l) u = if Nat.eqb u t then pred (count_occ Nat.eq_dec l t) else count_occ Nat.eq_dec l u.
Proof.
  induction l as [|x r IH]; cbn [remove1 count_occ].
  - destruct (Nat.eqb u t); reflexivity.
  - destruct (Nat.eqb_spec t x) as [Etx|Hne].
    + subst x. destruct (Nat.eq_dec t t) as [_|Hn]; [|congruence].
      destruct (Nat.eqb_spec u t) as [Eut|Hux].
      * subst u. reflexivity.
      * destruct (Nat.eq_dec t u); [congruence|reflexivity].
    + cbn [count_occ]. rewrite IH. clear IH.
      destruct (Nat.eqb_spec u t) as [Eut|Hut].
      * subst u. destruct (Nat.eq_dec x t); [congruence|reflexivity].
      * reflexivity.
Qed.

(* what a step of thread t did to the mutex: nothing, took it, or released it (in actual mode sm) *)
Definition mrel (t : nat) (k : option (bool * bool)) (g g' : glob) : Prop :=
  match k with
  | None => owner g' = owner g /\ sharers g' = sharers g
  | Some (true, sm) => obtainable sm g = true /\ owner g' = owner (take sm t g) /\ sharers g' = sharers (take sm t g)
  | Some (false, sm) => owner g' = owner (drop sm t g) /\ sharers g' = sharers (drop sm t g)
  end.
Definition addx (k : option (bool * bool)) : nat := match k with Some (true, false) => 1%nat | _ => 0%nat end.
Definition subx (k : option (bool * bool)) : nat := match k with Some (false, false) => 1%nat | _ => 0%nat end.
Definition adds (k : option (bool * bool)) : nat := match k with Some (true, true) => 1%nat | _ => 0%nat end.
Definition subs (k : option (bool * bool)) : nat := match k with Some (false, true) => 1%nat | _ => 0%nat end.

Record Inv1 (cf : config) (g : glob) (ls : list loc) : Prop := {
  I_ok : forall u l, nth_error ls u = Some l -> locok cf l;
  I_x : forall u, lx cf (locof ls u) = own1 g u;
  I_s : forall u, lsh cf (locof ls u) = shc g u;
  I_m : owner g <> None -> sharers g = []
}.

Lemma Inv1_upd cf g ls t l g' l' k :
  Inv1 cf g ls -> nth_error ls t = Some l -> locok cf l' -> mrel t k g g' ->
  (lx cf l' + subx k = lx cf l + addx k)%nat -> (lsh cf l' + subs k = lsh cf l + adds k)%nat ->
  Inv1 cf g' (upd ls t l').
Proof.
  intros HI Hl Hok Hm Hx Hs.
  pose proof (I_x _ _ _ HI) as IX. pose proof (I_s _ _ _ HI) as IS. pose proof (I_m _ _ _ HI) as IM.
  pose proof (IX t) as IXt. pose proof (IS t) as ISt. rewrite (locof_at _ _ _ Hl) in IXt, ISt.
  unfold own1, shc in *.
  constructor.
  - intros u l0 Hu. destruct (nth_upd _ _ _ _ _ Hu) as [[-> [-> _]]|[_ Hu']]; [exact Hok|]. eapply I_ok; eauto.
  - intros u. rewrite (locof_upd _ _ _ _ _ Hl). specialize (IX u). unfold own1.
    destruct k as [[[|] [|]]|]; cbn [mrel addx subx adds subs take drop set_mutex owner sharers obtainable] in *.
    + destruct Hm as [Hf [Ho Hsh]]. rewrite Ho. destruct (Nat.eqb_spec u t) as [->|Hne]; [lia|exact IX].
    + destruct Hm as [Hf [Ho Hsh]]. unfold free_x in Hf. rewrite Ho.
      destruct (owner g) eqn:Eo; [discriminate|]. cbn.
      destruct (Nat.eqb_spec u t) as [->|Hne].
      * rewrite Nat.eqb_refl. cbn. lia.
      * destruct (Nat.eqb_spec t u); [congruence|]. cbn. lia.
    + destruct Hm as [Ho Hsh]. rewrite Ho. destruct (Nat.eqb_spec u t) as [->|Hne]; [lia|exact IX].
    + destruct Hm as [Ho Hsh]. rewrite Ho.
      destruct (owner g) as [a|] eqn:Eo; [|cbn in IXt; lia].
      destruct (Nat.eqb_spec a t) as [->|Hat]; [|cbn in IXt; lia].
      destruct (Nat.eqb_spec u t) as [->|Hne]; [cbn in *; lia|].
      destruct (Nat.eqb_spec t u); [congruence|]. cbn in IX. exact IX.
    + destruct Hm as [Ho Hsh]. rewrite Ho. destruct (Nat.eqb_spec u t) as [->|Hne]; [lia|exact IX].
  - intros u. rewrite (locof_upd _ _ _ _ _ Hl). specialize (IS u). unfold shc.
    destruct k as [[[|] [|]]|]; cbn [mrel addx subx adds subs take drop set_mutex owner sharers obtainable] in *.
    + destruct Hm as [Hf [Ho Hsh]]. rewrite Hsh. rewrite count_occ_app. cbn [count_occ].
      destruct (Nat.eqb_spec u t) as [->|Hne].
      * destruct (Nat.eq_dec t t); [lia|congruence].
      * destruct (Nat.eq_dec t u); [congruence|lia].
    + destruct Hm as [Hf [Ho Hsh]]. rewrite Hsh. destruct (Nat.eqb_spec u t) as [->|Hne]; [lia|exact IS].
    + destruct Hm as [Ho Hsh]. rewrite Hsh. rewrite count_occ_remove1.
      destruct (Nat.eqb_spec u t) as [->|Hne]; [lia|exact IS].
    + destruct Hm as [Ho Hsh]. rewrite Hsh. destruct (Nat.eqb_spec u t) as [->|Hne]; [lia|exact IS].
    + destruct Hm as [Ho Hsh]. rewrite Hsh. destruct (Nat.eqb_spec u t) as [->|Hne]; [lia|exact IS].
  - destruct k as [[[|] [|]]|]; cbn [mrel addx subx adds subs take drop set_mutex owner sharers obtainable] in *.
    + destruct Hm as [Hf [Ho Hsh]]. unfold free_s in Hf. rewrite Ho. destruct (owner g); [discriminate|]. congruence.
    + destruct Hm as [Hf [Ho Hsh]]. unfold free_x in Hf. rewrite Hsh. intros _.
      destruct (owner g); [discriminate|]. destruct (sharers g); [reflexivity|discriminate].
    + destruct Hm as [Ho Hsh]. rewrite Ho, Hsh. intros Hn. rewrite (IM Hn). reflexivity.
    + destruct Hm as [Ho Hsh]. rewrite Ho. congruence.
    + destruct Hm as [Ho Hsh]. rewrite Ho, Hsh. exact IM.
Qed.

(* ---------- the primitive operations ---------- *)
Lemma acquire_true am sm t c g g' e : acquire am sm t c g = Some (g', true, e) ->
  obtainable sm g = true /\ g' = set_nacq (take sm t g) (S (nacq g)).
Proof.
  unfold acquire. destruct am; destruct (obtainable sm g) eqn:Eo; cbn; intros H; try discriminate; inversion H; auto.
  destruct (Nat.eqb c 2); inversion H.
Qed.
Lemma acquire_false am sm t c g g' e : acquire am sm t c g = Some (g', false, e) ->
  obtainable sm g = false /\ g' = g.
Proof.
  unfold acquire. destruct am; destruct (obtainable sm g) eqn:Eo; cbn; intros H; try discriminate; inversion H; auto.
  destruct (Nat.eqb c 2); inversion H; auto.
Qed.
Lemma acquire_block sm t c g g' ok e : acquire ABlock sm t c g = Some (g', ok, e) -> ok = true.
Proof. unfold acquire. destruct (obtainable sm g); intros H; inversion H; reflexivity. Qed.
Lemma release_eq sm t i g g' e : release sm t i g = (g', e) -> g' = add_released (drop sm t g) i.
Proof. unfold release. intros H. inversion H. reflexivity. Qed.

Lemma mrel_take sm t g n : obtainable sm g = true -> mrel t (Some (true, sm)) g (set_nacq (take sm t g) n).
Proof. intros H. cbn. destruct sm; cbn; auto. Qed.
Lemma mrel_drop sm t g i : mrel t (Some (false, sm)) g (add_released (drop sm t g) i).
Proof. cbn. destruct sm; cbn; auto. Qed.
Lemma exec_mi_mutex cf t i ph r ok g :
  owner (m_g (exec_mi cf t i ph r ok g)) = owner g /\ sharers (m_g (exec_mi cf t i ph r ok g)) = sharers g.
Proof.
  unfold exec_mi. destruct i as [fid snap| |tg s| |e d]; cbn.
  - destruct (existsb _ _); cbn; auto.
  - destruct ph; cbn; auto.
  - destruct tg; destruct ph; cbn; auto.
  - destruct ph as [|[|[|ph]]]; cbn; auto.
  - destruct ph; cbn; auto.
Qed.

Lemma Inv1_init cf progs : Inv1 cf (gl (init cf progs)) (thr (init cf progs)).
Proof.
  assert (P : forall u, locof (thr (init cf progs)) u = loc0 \/ exists p, locof (thr (init cf progs)) u = Loc p Idle (repeat None NSLOTS)).
  { intros u. unfold locof, init. cbn [thr]. rewrite nth_error_map. destruct (nth_error progs u); cbn; eauto. }
  constructor.
  - intros u l Hu. unfold init in Hu. cbn [thr] in Hu. rewrite nth_error_map in Hu.
    destruct (nth_error progs u); inversion Hu; subst. split; cbn; auto.
  - intros u. destruct (P u) as [->|[p ->]]; reflexivity.
  - intros u. destruct (P u) as [->|[p ->]]; reflexivity.
  - reflexivity.
Qed.

(* ---------- preservation of the lock accounting ---------- *)
Ltac bool_hyps :=
  repeat match goal with
  | H : negb _ = false |- _ => apply negb_false_iff in H
  | H : negb _ = true |- _ => apply negb_true_iff in H
  | H : _ || _ = false |- _ => apply orb_false_iff in H; destruct H
  | H : in_range _ = true |- _ => apply in_range_lt in H
  | H : Nat.eqb _ _ = false |- _ => apply Nat.eqb_neq in H
  end.
(* pose the counting equations of every updated slot table in the goal *)
Ltac cnt_facts cf sl0 Hlen :=
  repeat match goal with
  | |- context [cnt ?f (upd ?sl ?h ?y)] =>
    lazymatch goal with
    | _ : (cnt f (upd sl h y) + _ = _)%nat |- _ => fail
    | _ => let E := fresh "EC" in
           assert (cnt f (upd sl h y) + oh f (slot sl h) = cnt f sl + oh f y)%nat as E
             by (apply cnt_upd; first [ lia | eapply slot_some_lt; eassumption ]);
           generalize dependent (cnt f (upd sl h y)); intros
    end
  end.
Ltac hx_simpl := unfold hx, hs, b2n in *; cbn [hown hsh hnn hid oh disown nulled] in *.

Lemma Inv1_step cf : forall g ls t c l g' l' es,
  Inv1 cf g ls -> nth_error ls t = Some l -> tstep0 cf t c g l = Some (g', l', es) -> Inv1 cf g' (upd ls t l').
Proof.
  intros g ls t c l g' l' es HI Hl Hs.
  pose proof (locok_step _ _ _ _ _ _ _ _ (I_ok _ _ _ HI _ _ Hl) Hs) as Hok'.
  destruct (I_ok _ _ _ HI _ _ Hl) as [Hlen Hpc].
  destruct l as [pr p sl]. cbn [at_ slots] in *.
  step_cases Hs; bool_hyps.
  all: try match goal with H : acquire ABlock _ _ _ _ = Some (_, ?b, _) |- _ => pose proof (acquire_block _ _ _ _ _ _ _ H); subst b end.
  all: try match goal with H : acquire _ _ _ _ _ = Some (_, ?b, _) |- _ => is_var b; destruct b end.
  all: first
    [ match goal with H : acquire _ ?sm _ _ _ = Some (_, true, _) |- _ =>
        destruct (acquire_true _ _ _ _ _ _ _ H) as [Hobt ->];
        eapply (Inv1_upd cf _ ls t _ _ _ (Some (true, sm)) HI Hl Hok'); [exact (mrel_take _ _ _ _ Hobt)| |] end
    | match goal with H : acquire _ ?sm _ _ _ = Some (_, false, _) |- _ =>
        destruct (acquire_false _ _ _ _ _ _ _ H) as [Hobt ->];
        eapply (Inv1_upd cf _ ls t _ _ _ None HI Hl Hok'); [split; reflexivity| |] end
    | match goal with H : release ?sm _ _ _ = (_, _) |- _ =>
        rewrite (release_eq _ _ _ _ _ _ H);
        eapply (Inv1_upd cf _ ls t _ _ _ (Some (false, sm)) HI Hl Hok'); [exact (mrel_drop _ _ _ _)| |] end
    | match goal with |- context [exec_mi ?a ?b ?c ?d ?e ?f ?g0] =>
        eapply (Inv1_upd cf _ ls t _ _ _ None HI Hl Hok'); [exact (exec_mi_mutex a b c d e f g0)| |] end
    | eapply (Inv1_upd cf _ ls t _ _ _ None HI Hl Hok'); [split; reflexivity| |]
    | idtac "NOAPP"; match goal with |- ?G => idtac G end; give_up ].
  all: unfold lx, lsh; cbn [at_ slots pcx pcs addx subx adds subs].
  all: try lia.
  all: try match goal with |- context [after_rel ?k _] => destruct k; unfold after_rel; cbn [rel_slot] in * end.
  all: repeat match goal with
       | H : exists _, _ |- _ => destruct H
       | H : _ /\ _ |- _ => destruct H
       end.
  all: try match goal with H : slot ?sl ?s <> None |- _ => destruct (slot sl s) eqn:?; [|congruence] end.
  all: try match goal with |- context [do_move ?sl ?s ?d] =>
         match goal with Hs : slot sl s = Some ?x |- _ =>
           let E1 := fresh "EM" in let E2 := fresh "EM" in
           assert (d < length sl)%nat by first [ lia | eapply slot_some_lt; eassumption ];
           pose proof (cnt_move (hx cf) sl s d x Hs ltac:(assumption) ltac:(assumption)) as E1;
           pose proof (cnt_move (hs cf) sl s d x Hs ltac:(assumption) ltac:(assumption)) as E2;
           rewrite ?hx_disown, ?hs_disown in *
         end end.
  all: repeat match goal with H : slot _ ?h = _ |- _ => rewrite H in * end.
  all: repeat match goal with H : Some _ = Some _ |- _ => inversion H; clear H; subst end.
  all: cnt_facts cf sl Hlen.
  all: repeat match goal with H : slot _ ?h = _ |- _ => rewrite H in * end.
  all: unfold gmode in *; repeat match goal with H : wop_code _ _ = _ |- _ => rewrite H in * end.
  all: repeat match goal with |- context [cnt ?f ?l] => let C := fresh "C" in set (C := cnt f l) in * end.
  all: hx_simpl.
  all: repeat match goal with
       | H : ?a = true |- _ => rewrite H in *
       | H : ?a = false |- _ => rewrite H in *
       end; cbn [andb negb orb] in *.
  all: try lia.
  all: repeat match goal with
       | |- context [if ?b then _ else _] => destruct b eqn:?
       | H : context [if ?b then _ else _] |- _ => destruct b eqn:?
       end; cbn [andb negb orb] in *; try lia.
Qed.

Lemma R_inv1 cf progs s : R cf progs s -> Inv1 cf (gl s) (thr s).
Proof. intros H. eapply reachable_inv; [apply (lift_step cf _ (Inv1_step cf))|apply Inv1_init|exact H]. Qed.

(* ---------- C01: whoever holds the lock exclusively is alone ---------- *)
Lemma own1_le g u : (own1 g u <= 1)%nat.
Proof. unfold own1. destruct (owner g); [|lia]. destruct (Nat.eqb n u); cbn; lia. Qed.
Lemma own1_pos g u : (1 <= own1 g u)%nat -> owner g = Some u.
Proof.
  unfold own1. destruct (owner g) as [a|]; [|lia]. destruct (Nat.eqb_spec a u); cbn; [congruence|lia].
Qed.
Lemma lx_le cf g ls u : Inv1 cf g ls -> (lx cf (locof ls u) <= 1)%nat.
Proof. intros HI. rewrite (I_x _ _ _ HI). apply own1_le. Qed.

Lemma excl_locks cf g ls t u : Inv1 cf g ls -> t <> u -> (1 <= lx cf (locof ls t))%nat ->
  lx cf (locof ls u) = 0%nat /\ lsh cf (locof ls u) = 0%nat.
Proof.
  intros HI Hne Ht. rewrite (I_x _ _ _ HI) in Ht. apply own1_pos in Ht.
  rewrite (I_x _ _ _ HI), (I_s _ _ _ HI). unfold own1, shc. rewrite Ht.
  rewrite (I_m _ _ _ HI) by congruence. destruct (Nat.eqb_spec t u); [congruence|]. auto.
Qed.

(* ---------- windows ---------- *)
Definition rdopen (p : pc) : nat :=
  match p with
  | Run _ (MRead :: _) (S _) _ _ => 1%nat
  | Run _ (MIncr :: _) 1 _ _ => 1%nat
  | _ => 0%nat
  end.
Definition wropen (p : pc) : bool :=
  match p with
  | Run _ (MWrite Obj _ :: _) (S _) _ _ => true
  | Run _ (MIncr :: _) (S (S (S _))) _ _ => true
  | _ => false
  end.
(* instructions a thread may execute while it holds the mutex only in shared mode *)
Definition ro_mi (i : mi) : bool :=
  match i with MCall _ _ | MRead => true | _ => false end.
Definition nowrite (code : list mi) : bool := forallb ro_mi code.
Definition safe (cf : config) (g : glob) : Prop := locking cf = true /\ misuse g = 0%nat.
Definition covered (cf : config) (l : loc) : Prop :=
  forall fr code ph r ok, at_ l = Run fr code ph r ok ->
    lx cf l = 1%nat \/ ((1 <= lsh cf l)%nat /\ nowrite code = true).

Record Inv2 (cf : config) (g : glob) (ls : list loc) : Prop := {
  I_r : readers g = list_sum (map (fun l => rdopen (at_ l)) ls);
  I_cov : safe cf g -> forall u, covered cf (locof ls u);
  I_d : safe cf g -> dirty g = true -> exists u, wropen (at_ (locof ls u)) = true;
  I_f : safe cf g -> faults g = nderef g;
  I_reg : safe cf g -> forall u fr rest ph r ok,
      at_ (locof ls u) = Run fr (MIncr :: rest) ph r ok -> (2 <= ph)%nat -> r = val g;
  I_val : safe cf g -> owrites g = 0%nat -> val g = init_val cf + Z.of_nat (incrs g)
}.

Lemma sum_zero {A} (f : A -> nat) (l : list A) :
  (forall u x, nth_error l u = Some x -> f x = 0%nat) -> list_sum (map f l) = 0%nat.
Proof.
  induction l as [|a r IH]; intros H; [reflexivity|].
  change (list_sum (map f (a :: r))) with (f a + list_sum (map f r))%nat.
  rewrite (H 0%nat a eq_refl). rewrite IH; [reflexivity|]. intros u x Hx. apply (H (S u) x Hx).
Qed.

Lemma wropen_run p : wropen p = true -> exists fr i rest ph r ok, p = Run fr (i :: rest) ph r ok /\ ro_mi i = false.
Proof.
  destruct p; cbn; try discriminate. destruct code as [|i rest]; [discriminate|].
  destruct i; try discriminate.
  - destruct tg; [|discriminate]. intros _. repeat eexists.
  - intros _. repeat eexists.
Qed.
Lemma rdopen_run p : rdopen p = 1%nat -> exists fr code ph r ok, p = Run fr code ph r ok.
Proof. destruct p; cbn; try discriminate. intros _. repeat eexists. Qed.
Lemma rdopen_le p : (rdopen p <= 1)%nat.
Proof. destruct p; cbn; try lia. destruct code as [|[]]; try lia; destruct ph as [|[|]]; lia. Qed.

(* a thread that writes is alone: nobody else is inside a window *)
Lemma writer_alone cf g ls t : Inv1 cf g ls -> Inv2 cf g ls -> safe cf g ->
  lx cf (locof ls t) = 1%nat -> forall u, u <> t -> rdopen (at_ (locof ls u)) = 0%nat /\ wropen (at_ (locof ls u)) = false.
Proof.
  intros H1 H2 Hs Ht u Hne.
  destruct (excl_locks cf g ls t u H1 (not_eq_sym Hne) ltac:(lia)) as [Ex Es].
  pose proof (I_cov _ _ _ H2 Hs u) as Hc.
  split.
  - pose proof (rdopen_le (at_ (locof ls u))). destruct (rdopen (at_ (locof ls u))) eqn:E; [reflexivity|].
    assert (rdopen (at_ (locof ls u)) = 1%nat) as E1 by lia.
    destruct (rdopen_run _ E1) as [fr [code [ph [r [ok Hp]]]]]. destruct (Hc _ _ _ _ _ Hp) as [?|[? _]]; lia.
  - destruct (wropen (at_ (locof ls u))) eqn:E; [|reflexivity].
    destruct (wropen_run _ E) as [fr [i [rest [ph [r [ok [Hp _]]]]]]]. destruct (Hc _ _ _ _ _ Hp) as [?|[? _]]; lia.
Qed.

(* a covered thread that is not itself writing sees a clean object *)
Lemma covered_clean cf g ls t : Inv1 cf g ls -> Inv2 cf g ls -> safe cf g ->
  (1 <= lx cf (locof ls t) + lsh cf (locof ls t))%nat -> wropen (at_ (locof ls t)) = false -> dirty g = false.
Proof.
  intros H1 H2 Hs Ht Hw. destruct (dirty g) eqn:Ed; [|reflexivity]. exfalso.
  destruct (I_d _ _ _ H2 Hs Ed) as [u Hu].
  assert (u <> t) as Hne by (intros ->; congruence).
  destruct (wropen_run _ Hu) as [fr [i [rest [ph [r [ok [Hp Hro]]]]]]].
  destruct (I_cov _ _ _ H2 Hs u _ _ _ _ _ Hp) as [Hx|[_ Hn]].
  - destruct (excl_locks cf g ls u t H1 Hne ltac:(lia)). lia.
  - cbn in Hn. rewrite Hro in Hn. discriminate.
Qed.

Lemma readers_sum_zero cf g ls t : Inv1 cf g ls -> Inv2 cf g ls -> safe cf g ->
  lx cf (locof ls t) = 1%nat -> rdopen (at_ (locof ls t)) = 0%nat -> readers g = 0%nat.
Proof.
  intros H1 H2 Hs Ht Hr. rewrite (I_r _ _ _ H2). apply sum_zero. intros u l Hu.
  destruct (Nat.eq_dec u t) as [->|Hne].
  - rewrite <- (locof_at _ _ _ Hu). exact Hr.
  - rewrite <- (locof_at _ _ _ Hu). apply (writer_alone cf g ls t H1 H2 Hs Ht u Hne).
Qed.

Lemma Inv2_upd cf g ls t l g' l' :
  Inv1 cf g ls -> Inv2 cf g ls -> nth_error ls t = Some l ->
  (misuse g <= misuse g')%nat ->
  (readers g' + rdopen (at_ l) = readers g + rdopen (at_ l'))%nat ->
  (safe cf g' -> covered cf l') ->
  (safe cf g' -> dirty g' = true -> wropen (at_ l') = true \/ (dirty g = true /\ wropen (at_ l) = false)) ->
  (safe cf g' -> (faults g' + nderef g = faults g + nderef g')%nat) ->
  (safe cf g' -> forall fr rest ph r ok, at_ l' = Run fr (MIncr :: rest) ph r ok -> (2 <= ph)%nat -> r = val g') ->
  (val g' = val g \/ (safe cf g' -> lx cf l = 1%nat)) ->
  (safe cf g' -> owrites g' = 0%nat -> owrites g = 0%nat /\ val g' - Z.of_nat (incrs g') = val g - Z.of_nat (incrs g)) ->
  Inv2 cf g' (upd ls t l').
Proof.
  intros H1 H2 Hl Hmis Hrd Hcov Hd Hf Hreg Hval Hiv.
  assert (Hsafe : safe cf g' -> safe cf g) by (intros [? ?]; split; [assumption|lia]).
  constructor.
  - rewrite (I_r _ _ _ H2) in Hrd.
    pose proof (sum_upd (fun l => rdopen (at_ l)) ls t l l' Hl). lia.
  - intros Hs u. rewrite (locof_upd _ _ _ _ _ Hl). destruct (Nat.eqb u t); [auto|].
    apply (I_cov _ _ _ H2 (Hsafe Hs)).
  - intros Hs Hdg. destruct (Hd Hs Hdg) as [Hw|[Hdo Hw]].
    + exists t. rewrite (locof_upd _ _ _ _ _ Hl), Nat.eqb_refl. exact Hw.
    + destruct (I_d _ _ _ H2 (Hsafe Hs) Hdo) as [u Hu].
      assert (u <> t) as Hne by (intros ->; rewrite (locof_at _ _ _ Hl) in Hu; congruence).
      exists u. rewrite (locof_upd _ _ _ _ _ Hl). destruct (Nat.eqb_spec u t); [congruence|exact Hu].
  - intros Hs. pose proof (I_f _ _ _ H2 (Hsafe Hs)). pose proof (Hf Hs). lia.
  - intros Hs u fr rest ph r ok. rewrite (locof_upd _ _ _ _ _ Hl).
    destruct (Nat.eqb_spec u t) as [->|Hne]; [apply (Hreg Hs)|].
    intros Hp Hph. pose proof (I_reg _ _ _ H2 (Hsafe Hs) u _ _ _ _ _ Hp Hph) as E.
    destruct Hval as [Hv|Hx]; [congruence|]. exfalso.
    specialize (Hx Hs). rewrite <- (locof_at _ _ _ Hl) in Hx.
    destruct (excl_locks cf g ls t u H1 (not_eq_sym Hne) ltac:(lia)) as [Ex Es].
    destruct (I_cov _ _ _ H2 (Hsafe Hs) u _ _ _ _ _ Hp) as [?|[? Hn]]; [lia|]. cbn in Hn. discriminate.
  - intros Hs Ho. destruct (Hiv Hs Ho) as [Ho' E]. pose proof (I_val _ _ _ H2 (Hsafe Hs) Ho'). lia.
Qed.

(* the fields of the wrapped object *)
Definition same_obj (g g' : glob) : Prop :=
  val g' = val g /\ readers g' = readers g /\ dirty g' = dirty g /\ incrs g' = incrs g /\ owrites g' = owrites g.
Lemma same_obj_refl g : same_obj g g. Proof. repeat split. Qed.
Lemma acquire_obj am sm t c g g' ok e : acquire am sm t c g = Some (g', ok, e) ->
  same_obj g g' /\ misuse g' = misuse g /\ faults g' = faults g /\ nderef g' = nderef g.
Proof.
  unfold acquire. destruct am; destruct (obtainable sm g); try destruct (Nat.eqb c 2); cbn; intros H; inversion H; subst;
    destruct sm; cbn; repeat split.
Qed.
Lemma release_obj sm t i g g' e : release sm t i g = (g', e) ->
  same_obj g g' /\ misuse g' = misuse g /\ faults g' = faults g /\ nderef g' = nderef g.
Proof. unfold release. intros H; inversion H; subst. destruct sm; cbn; repeat split. Qed.

Lemma Inv2_same cf g ls t l g' l' :
  Inv1 cf g ls -> Inv2 cf g ls -> nth_error ls t = Some l ->
  same_obj g g' -> (misuse g <= misuse g')%nat -> (faults g' + nderef g = faults g + nderef g')%nat ->
  rdopen (at_ l) = 0%nat -> rdopen (at_ l') = 0%nat -> wropen (at_ l) = false -> wropen (at_ l') = false ->
  (safe cf g' -> covered cf l') ->
  (forall fr rest ph r ok, at_ l' = Run fr (MIncr :: rest) ph r ok -> ph = 0%nat) ->
  Inv2 cf g' (upd ls t l').
Proof.
  intros H1 H2 Hl [Ev [Er [Ed [Ei Eo]]]] Hmis Hf R0 R0' W0 W0' Hc Hph.
  apply (Inv2_upd cf g ls t l g' l' H1 H2 Hl Hmis); auto; try lia.
  - intros _ Hd. right. split; congruence.
  - intros _ fr rest ph r ok Hp Hge. rewrite (Hph _ _ _ _ _ Hp) in Hge. lia.
Qed.

Lemma wop_shared_nowrite cf o code : wop_code cf o = Some (true, code) -> nowrite code = true.
Proof.
  unfold wop_code. destruct o; try discriminate; destruct (flav cf); destruct (plain cf); cbn; intros H; inversion H; reflexivity.
Qed.
Lemma nowrite_tail i rest : nowrite (i :: rest) = true -> nowrite rest = true.
Proof. cbn. intros H. apply andb_true_iff in H. tauto. Qed.

Lemma rdopen_ph0 fr code r ok : rdopen (Run fr code 0 r ok) = 0%nat.
Proof. destruct code as [|[]]; reflexivity. Qed.
Lemma wropen_ph0 fr code r ok : wropen (Run fr code 0 r ok) = false.
Proof. destruct code as [|[| |[]| |]]; reflexivity. Qed.

Definition notrun (p : pc) : Prop := match p with Run _ _ _ _ _ => False | _ => True end.
Lemma notrun_rd p : notrun p -> rdopen p = 0%nat. Proof. destruct p; cbn; tauto. Qed.
Lemma notrun_wr p : notrun p -> wropen p = false. Proof. destruct p; cbn; tauto. Qed.

Lemma sum_nth_le {A} (f : A -> nat) (l : list A) t x : nth_error l t = Some x -> (f x <= list_sum (map f l))%nat.
Proof.
  revert t. induction l as [|a r IH]; intros t H.
  - destruct t; discriminate.
  - change (list_sum (map f (a :: r))) with (f a + list_sum (map f r))%nat.
    destruct t as [|t]; cbn [nth_error] in H.
    + inversion H; subst. lia.
    + specialize (IH t H). lia.
Qed.

(* one phase of one micro-instruction, executed by a thread that is covered *)
Lemma Inv2_exec cf g ls t pr sl fr i rest ph r ok p' :
  Inv1 cf g ls -> Inv2 cf g ls -> nth_error ls t = Some (Loc pr (Run fr (i :: rest) ph r ok) sl) ->
  let m := exec_mi cf t i ph r ok g in
  ((m_done m = false /\ m_thrown m = false /\ p' = Run fr (i :: rest) (S ph) (m_r m) (m_ok m)) \/
   ((m_done m = true \/ m_thrown m = true) /\
    (notrun p' \/ (m_thrown m = false /\
                   p' = Run fr (match m_rest m with Some c' => c' | None => rest end) 0 (m_r m) (m_ok m))))) ->
  Inv2 cf (m_g m) (upd ls t (Loc pr p' sl)).
Proof.
  intros H1 H2 Hl m Hp'.
  set (l0 := Loc pr (Run fr (i :: rest) ph r ok) sl) in *.
  assert (Hcov : safe cf g -> lx cf l0 = 1%nat \/ ((1 <= lsh cf l0)%nat /\ nowrite (i :: rest) = true)).
  { intros Hs. pose proof (I_cov _ _ _ H2 Hs t) as Hc. rewrite (locof_at _ _ _ Hl) in Hc. eapply Hc. reflexivity. }
  assert (Hlx : forall code ph2 r2 ok2, lx cf (Loc pr (Run fr code ph2 r2 ok2) sl) = lx cf l0 /\
                                         lsh cf (Loc pr (Run fr code ph2 r2 ok2) sl) = lsh cf l0).
  { intros. unfold lx, lsh, l0. cbn [at_ slots pcx pcs]. destruct fr; auto. }
  assert (Hclean : safe cf g -> wropen (at_ l0) = false -> dirty g = false).
  { intros Hs Hw. apply (covered_clean cf g ls t H1 H2 Hs); rewrite (locof_at _ _ _ Hl); [|exact Hw].
    destruct (Hcov Hs) as [?|[? _]]; lia. }
  assert (Hnord : safe cf g -> ro_mi i = false -> rdopen (at_ l0) = 0%nat -> readers g = 0%nat).
  { intros Hs Hro Hr. apply (readers_sum_zero cf g ls t H1 H2 Hs); rewrite (locof_at _ _ _ Hl); [|exact Hr].
    destruct (Hcov Hs) as [?|[_ Hn]]; [assumption|]. cbn in Hn. rewrite Hro in Hn. discriminate. }
  assert (Hxw : safe cf g -> ro_mi i = false -> lx cf l0 = 1%nat).
  { intros Hs Hro. destruct (Hcov Hs) as [?|[_ Hn]]; [assumption|]. cbn in Hn. rewrite Hro in Hn. discriminate. }
  assert (Hrd1 : (rdopen (at_ l0) <= readers g)%nat).
  { rewrite (I_r _ _ _ H2). apply (sum_nth_le (fun l => rdopen (at_ l)) ls t l0 Hl). }
  assert (Hregt : safe cf g -> forall rest0, i :: rest = MIncr :: rest0 -> (2 <= ph)%nat -> r = val g).
  { intros Hs rest0 E Hge. inversion E; subst. apply (I_reg _ _ _ H2 Hs t fr rest0 ph r ok); [|exact Hge].
    rewrite (locof_at _ _ _ Hl). reflexivity. }
  destruct i as [fid snap| |tg s| |e d];
    [| destruct ph as [|ph] | destruct tg; destruct ph as [|ph] | destruct ph as [|[|[|ph]]] | destruct ph as [|ph]];
    subst m; unfold exec_mi, rd_begin, rd_end, wr_begin, wr_end in *; cbn in Hp' |- *.
  all: try match goal with |- context [existsb] => destruct (existsb (Nat.eqb (calls g)) (throws cf)) eqn:Ethr; cbn in Hp' |- * end.
  all: destruct Hp' as [[Hd [Ht ->]] | [Hd [Hn | [Ht ->]]]]; try discriminate; try (destruct Hd; discriminate).
  all: pose proof (fun code ph2 r2 ok2 => proj1 (Hlx code ph2 r2 ok2)) as Hlx1;
       pose proof (fun code ph2 r2 ok2 => proj2 (Hlx code ph2 r2 ok2)) as Hlx2.
  all: try (pose proof (notrun_rd _ Hn) as Hnr; pose proof (notrun_wr _ Hn) as Hnw).
  all: eapply (Inv2_upd cf g ls t l0 _ _ H1 H2 Hl); cbn [at_ misuse readers dirty faults nderef val owrites incrs set_obj set_calls add_owrite add_incr].
  all: try lia.
  all: unfold l0 in *; cbn [at_ rdopen wropen] in *; rewrite ?rdopen_ph0, ?wropen_ph0.
  all: try (rewrite ?Hnr, ?Hnw; lia).
  all: try (intros Hs'; assert (Hs : safe cf g) by (destruct Hs' as [? Hm']; split; [assumption|exact Hm']); clear Hs').
  (* the new pc is covered *)
  all: try match goal with |- covered _ _ =>
         unfold covered; cbn [at_]; intros fr0 code0 ph0 r0 ok0 Hp;
         first [ subst p'; contradiction
               | inversion Hp; subst; clear Hp; rewrite Hlx1, Hlx2;
                 first [ exact (Hcov Hs)
                       | destruct (Hcov Hs) as [?|[? Hnw0]]; [left; assumption|right; split; [assumption|exact (nowrite_tail _ _ Hnw0)]]
                       | left; apply (Hxw Hs); reflexivity ] ]
       end.
  (* Incr register *)
  all: try match goal with |- forall (_ : frame), _ =>
         intros fr0 rest0 ph0 r0 ok0 Hp Hge;
         first [ subst p'; contradiction
               | inversion Hp; subst; clear Hp; first [ lia | reflexivity ] ]
       end.
  all: repeat match goal with |- context [match ?x with [] => _ | _ :: _ => _ end] => destruct x end.
  all: try lia.
  all: try (intros Hd; right; split; [exact Hd|reflexivity]).
  all: try (rewrite ?(Hclean Hs eq_refl), ?(Hnord Hs eq_refl eq_refl); lia).
  all: try (cbn [rdopen] in Hrd1; rewrite ?Hnr; lia).
  all: try (right; intros Hs'; apply Hxw; [destruct Hs'; split; assumption|reflexivity]).
  all: try (intros fr0 rest0 ph0 r0 ok0 Hp Hge; inversion Hp; subst; clear Hp; apply (Hregt Hs _ eq_refl); lia).
  all: try (destruct m; cbn; lia).
  all: try (intros Ho; split; [exact Ho|]; rewrite (Hregt Hs _ eq_refl) by lia; lia).
Qed.

Lemma Inv2_step cf : forall g ls t c l g' l' es,
  Inv1 cf g ls -> Inv2 cf g ls -> nth_error ls t = Some l -> tstep0 cf t c g l = Some (g', l', es) ->
  Inv2 cf g' (upd ls t l').
Proof.
  intros g ls t c l g' l' es H1 H2 Hl Hs.
  pose proof (Inv1_step cf _ _ _ _ _ _ _ _ H1 Hl Hs) as H1'.
  pose proof (I_x _ _ _ H1' t) as HX'. pose proof (own1_le g' t) as HXle.
  rewrite (locof_upd _ _ _ _ _ Hl), Nat.eqb_refl in HX'.
  pose proof (I_cov _ _ _ H2) as HC.
  destruct (I_ok _ _ _ H1 _ _ Hl) as [Hlen Hpc].
  destruct l as [pr p sl]. cbn [at_ slots] in *.
  step_cases Hs; bool_hyps.
  all: try match goal with H : acquire ABlock _ _ _ _ = Some (_, ?b, _) |- _ => pose proof (acquire_block _ _ _ _ _ _ _ H); subst b end.
  (* steps that do not touch the wrapped object *)
  all: try (
    first [ match goal with H : acquire _ _ _ _ _ = Some _ |- _ => destruct (acquire_obj _ _ _ _ _ _ _ _ H) as [Hso [Hmi [Hfa Hnd]]] end
          | match goal with H : release _ _ _ _ = _ |- _ => destruct (release_obj _ _ _ _ _ _ H) as [Hso [Hmi [Hfa Hnd]]] end
          | match goal with |- context [exec_mi] => fail 2 end
          | idtac ];
    eapply (Inv2_same cf _ ls t _ _ _ H1 H2 Hl);
    [ first [ eassumption | apply same_obj_refl | repeat split ]
    | first [ lia | cbn; lia ]
    | first [ lia | cbn; lia ]
    | first [reflexivity|apply rdopen_ph0] | first [reflexivity|apply rdopen_ph0] | first [reflexivity|apply wropen_ph0] | first [reflexivity|apply wropen_ph0]
    | intros Hsafe; unfold covered; cbn [at_]; intros fr0 code0 ph0 r0 ok0 Hp; first [discriminate Hp | inversion Hp; subst; clear Hp]
    | intros; first [ discriminate | match goal with H : Run _ _ _ _ _ = Run _ _ _ _ _ |- _ => inversion H; reflexivity end ] ]).
  - (* Use through a handle that owns nothing: counted as misuse, nothing is claimed afterwards *)
    eapply (Inv2_same cf _ ls t _ _ _ H1 H2 Hl); try reflexivity.
    + repeat split.
    + cbn; lia.
    + apply rdopen_ph0.
    + apply wropen_ph0.
    + intros [_ Hm]. cbn in Hm. discriminate.
    + intros fr rest ph r ok Hp. cbn in Hp. inversion Hp. reflexivity.
  - (* Use through a handle that owns its lock *)
    eapply (Inv2_same cf _ ls t _ _ _ H1 H2 Hl); try reflexivity.
    + apply same_obj_refl.
    + apply rdopen_ph0.
    + apply wropen_ph0.
    + intros [Hlk _] fr code ph r ok Hp. cbn [at_] in Hp. inversion Hp; subst; clear Hp.
      rewrite Hlk in Heqb1. cbn in Heqb1. apply negb_false_iff in Heqb1.
      pose proof (cnt_ge (hx cf) sl h h0 Heqo1) as Gx. pose proof (cnt_ge (hs cf) sl h h0 Heqo1) as Gs.
      unfold lx, lsh in *. cbn [at_ slots pcx pcs] in *.
      set (CX := cnt (hx cf) sl) in *. set (CS := cnt (hs cf) sl) in *.
      unfold hx, hs, b2n in Gx, Gs. rewrite Heqb1 in Gx, Gs. cbn [andb] in *.
      destruct (hsh h0 && shcap cf) eqn:Em; cbn in Gx, Gs.
      * right. split; [lia|]. apply andb_true_iff in Em as [Eh _]. rewrite Eh in Heqb. cbn in Heqb.
        destruct a; try discriminate. reflexivity.
      * left. lia.
    + intros fr rest ph r ok Hp. cbn in Hp. inversion Hp. reflexivity.
  - (* a whole-object operation has taken its guard *)
    destruct (acquire_obj _ _ _ _ _ _ _ _ Heqo1) as [Hso [Hmi [Hfa Hnd]]].
    eapply (Inv2_same cf _ ls t _ _ _ H1 H2 Hl); try reflexivity; try eassumption; try lia.
    + apply rdopen_ph0.
    + apply wropen_ph0.
    + intros _ fr code ph r ok Hp. cbn [at_] in Hp. inversion Hp; subst; clear Hp.
      unfold lx, lsh in *. cbn [at_ slots pcx pcs] in *. unfold gmode in *. rewrite Heqo0 in *.
      destruct (b && shcap cf) eqn:Em; cbn [negb b2n] in *.
      * right. split; [lia|]. apply andb_true_iff in Em as [-> _]. eapply wop_shared_nowrite; eauto.
      * left. lia.
    + intros fr rest ph r ok Hp. cbn in Hp. inversion Hp. reflexivity.
  - apply (Inv2_exec cf g ls t pr sl _ _ _ _ _ _ _ H1 H2 Hl); cbv zeta;
    first
    [ left; repeat split; assumption
    | right; split; [right; assumption | left; exact I]
    | right; split; [left; assumption | left; exact I]
    | right; split; [left; assumption | right; split; [assumption | congruence]] ].
  - apply (Inv2_exec cf g ls t pr sl _ _ _ _ _ _ _ H1 H2 Hl); cbv zeta;
    first
    [ left; repeat split; assumption
    | right; split; [right; assumption | left; exact I]
    | right; split; [left; assumption | left; exact I]
    | right; split; [left; assumption | right; split; [assumption | congruence]] ].
  - apply (Inv2_exec cf g ls t pr sl _ _ _ _ _ _ _ H1 H2 Hl); cbv zeta;
    first
    [ left; repeat split; assumption
    | right; split; [right; assumption | left; exact I]
    | right; split; [left; assumption | left; exact I]
    | right; split; [left; assumption | right; split; [assumption | congruence]] ].
  - apply (Inv2_exec cf g ls t pr sl _ _ _ _ _ _ _ H1 H2 Hl); cbv zeta;
    first
    [ left; repeat split; assumption
    | right; split; [right; assumption | left; exact I]
    | right; split; [left; assumption | left; exact I]
    | right; split; [left; assumption | right; split; [assumption | congruence]] ].
  - apply (Inv2_exec cf g ls t pr sl _ _ _ _ _ _ _ H1 H2 Hl); cbv zeta;
    first
    [ left; repeat split; assumption
    | right; split; [right; assumption | left; exact I]
    | right; split; [left; assumption | left; exact I]
    | right; split; [left; assumption | right; split; [assumption | congruence]] ].
  - apply (Inv2_exec cf g ls t pr sl _ _ _ _ _ _ _ H1 H2 Hl); cbv zeta;
    first
    [ left; repeat split; assumption
    | right; split; [right; assumption | left; exact I]
    | right; split; [left; assumption | left; exact I]
    | right; split; [left; assumption | right; split; [assumption | congruence]] ].
Qed.

Lemma Inv2_init cf progs : Inv2 cf (gl (init cf progs)) (thr (init cf progs)).
Proof.
  assert (P : forall u, at_ (locof (thr (init cf progs)) u) = Idle).
  { intros u. unfold locof, init. cbn [thr]. rewrite nth_error_map. destruct (nth_error progs u); reflexivity. }
  constructor; cbn [gl init readers dirty faults nderef val owrites incrs].
  - symmetry. apply sum_zero. intros u x Hx. unfold init in Hx. cbn [thr] in Hx. rewrite nth_error_map in Hx.
    destruct (nth_error progs u); inversion Hx; reflexivity.
  - intros _ u fr code ph r ok Hp. rewrite P in Hp. discriminate.
  - discriminate.
  - reflexivity.
  - intros _ u fr rest ph r ok Hp. rewrite P in Hp. discriminate.
  - intros _ _. cbn. lia.
Qed.

Definition Inv (cf : config) (g : glob) (ls : list loc) : Prop := Inv1 cf g ls /\ Inv2 cf g ls.
Lemma Inv_step cf : forall g ls t c l g' l' es,
  Inv cf g ls -> nth_error ls t = Some l -> tstep0 cf t c g l = Some (g', l', es) -> Inv cf g' (upd ls t l').
Proof. intros g ls t c l g' l' es [H1 H2] Hl Hs. split; [eapply Inv1_step|eapply Inv2_step]; eauto. Qed.
Lemma R_inv cf progs s : R cf progs s -> Inv cf (gl s) (thr s).
Proof.
  intros H. eapply reachable_inv; [apply (lift_step cf _ (Inv_step cf))| |exact H]. split; [apply Inv1_init|apply Inv2_init].
Qed.

(* ---------- C01 ---------- *)
(* t has exclusive access: a live handle of t owns the mutex exclusively, or t is inside the guarded
   region of load / store / operator= / modify / exchange / compare_exchange / operator T *)
Definition in_excl_access (cf : config) (s : sysW) (t : nat) : Prop := (1 <= lx cf (locof (thr s) t))%nat.
Definition holds_lock (cf : config) (s : sysW) (u : nat) : Prop :=
  (1 <= lx cf (locof (thr s) u) + lsh cf (locof (thr s) u))%nat.
(* u is executing accesses of the wrapped object (through a handle or inside a whole-object operation) *)
Definition in_any_access (s : sysW) (u : nat) : Prop :=
  exists fr code ph r ok, at_ (locof (thr s) u) = Run fr code ph r ok.
Definition open_window (s : sysW) (t : nat) : Prop :=
  rdopen (at_ (locof (thr s) t)) = 1%nat \/ wropen (at_ (locof (thr s) t)) = true.
Definition open_write_window (s : sysW) (t : nat) : Prop := wropen (at_ (locof (thr s) t)) = true.

Lemma excl_invariant_l cf progs s t u : R cf progs s -> in_excl_access cf s t -> u <> t ->
  ~ holds_lock cf s u /\ (safe cf (gl s) -> ~ in_any_access s u).
Proof.
  intros HR Ht Hne. destruct (R_inv _ _ _ HR) as [H1 H2]. unfold in_excl_access, holds_lock in *.
  destruct (excl_locks cf _ _ t u H1 (not_eq_sym Hne) Ht) as [Ex Es]. split; [lia|].
  intros Hs [fr [code [ph [r [ok Hp]]]]].
  destruct (I_cov _ _ _ H2 Hs u _ _ _ _ _ Hp) as [?|[? _]]; lia.
Qed.

Lemma windows_disjoint_l cf progs s : R cf progs s -> safe cf (gl s) ->
  ~ (exists t u, t <> u /\ open_window s t /\ open_write_window s u).
Proof.
  intros HR Hs [t [u [Hne [Ht Hu]]]]. destruct (R_inv _ _ _ HR) as [H1 H2]. unfold open_window, open_write_window in *.
  destruct (wropen_run _ Hu) as [fr [i [rest [ph [r [ok [Hp Hro]]]]]]].
  destruct (I_cov _ _ _ H2 Hs u _ _ _ _ _ Hp) as [Hx|[_ Hn]]; [|cbn in Hn; rewrite Hro in Hn; discriminate].
  destruct (writer_alone cf _ _ u H1 H2 Hs Hx t Hne) as [Hr Hw]. destruct Ht; [lia|congruence].
Qed.

Lemma no_window_fault_l cf progs s : R cf progs s -> safe cf (gl s) -> faults (gl s) = nderef (gl s).
Proof. intros HR Hs. apply (I_f _ _ _ (proj2 (R_inv _ _ _ HR)) Hs). Qed.

Lemma no_lost_update_l cf progs s : R cf progs s -> safe cf (gl s) -> owrites (gl s) = 0%nat ->
  val (gl s) = init_val cf + Z.of_nat (incrs (gl s)).
Proof. intros HR Hs Ho. apply (I_val _ _ _ (proj2 (R_inv _ _ _ HR)) Hs Ho). Qed.

(* an increment in progress has read the current value: nobody wrote in between *)
Lemma incr_reads_current_l cf progs s u fr rest ph r ok : R cf progs s -> safe cf (gl s) ->
  at_ (locof (thr s) u) = Run fr (MIncr :: rest) ph r ok -> (2 <= ph)%nat -> r = val (gl s).
Proof. intros HR Hs. apply (I_reg _ _ _ (proj2 (R_inv _ _ _ HR)) Hs). Qed.

Lemma no_leaked_lock_l cf progs s t : R cf progs s ->
  (owner (gl s) = Some t <-> lx cf (locof (thr s) t) = 1%nat) /\
  (lx cf (locof (thr s) t) <= 1)%nat /\
  count_occ Nat.eq_dec (sharers (gl s)) t = lsh cf (locof (thr s) t).
Proof.
  intros HR. destruct (R_inv _ _ _ HR) as [H1 _].
  pose proof (I_x _ _ _ H1 t) as E. pose proof (own1_le (gl s) t). split; [|split].
  - split; intros H0.
    + rewrite E. unfold own1. rewrite H0, Nat.eqb_refl. reflexivity.
    + apply own1_pos. lia.
  - lia.
  - symmetry. apply (I_s _ _ _ H1 t).
Qed.

Lemma count_occ_all_zero (l : list nat) : (forall u, count_occ Nat.eq_dec l u = 0%nat) -> l = [].
Proof.
  destruct l as [|x r]; [reflexivity|]. intros H. specialize (H x). cbn in H.
  destruct (Nat.eq_dec x x); [discriminate|congruence].
Qed.

Definition owns_nothing (l : loc) : Prop :=
  at_ l = Idle /\ forall h x, slot (slots l) h = Some x -> hown x = false.
Lemma owns_nothing_zero cf l : owns_nothing l -> lx cf l = 0%nat /\ lsh cf l = 0%nat.
Proof.
  intros [Hp Hsl]. unfold lx, lsh. rewrite Hp. cbn [pcx pcs].
  rewrite !cnt_zero; [auto| |]; intros h x Hx; unfold hs, hx; rewrite (Hsl h x Hx); reflexivity.
Qed.
Lemma mutex_free_when_idle_l cf progs s : R cf progs s ->
  (forall u l, nth_error (thr s) u = Some l -> owns_nothing l) ->
  owner (gl s) = None /\ sharers (gl s) = [].
Proof.
  intros HR Hall. destruct (R_inv _ _ _ HR) as [H1 _].
  assert (Z0 : forall u, lx cf (locof (thr s) u) = 0%nat /\ lsh cf (locof (thr s) u) = 0%nat).
  { intros u. unfold locof. destruct (nth_error (thr s) u) as [l|] eqn:E; [|split; reflexivity].
    apply owns_nothing_zero. eauto. }
  split.
  - destruct (owner (gl s)) as [a|] eqn:Eo; [|reflexivity]. exfalso.
    pose proof (I_x _ _ _ H1 a) as E. unfold own1 in E. rewrite Eo, Nat.eqb_refl in E. destruct (Z0 a). cbn in E. lia.
  - apply count_occ_all_zero. intros u. pose proof (I_s _ _ _ H1 u) as E. unfold shc in E. destruct (Z0 u). lia.
Qed.

(* ---------- C01, progress: what a state looks like when nothing can move ---------- *)
Notation enabledW cf := (enabled glob loc (tstep cf)).
Notation quiescentW cf := (quiescent glob loc (tstep cf)).

(* blocked in a blocking acquisition of the mutex (actual mode sm) *)
Definition blocked_on (cf : config) (l : loc) (sm : bool) : Prop :=
  (exists h sh, at_ l = HAcq h ABlock sh /\ sm = sh && shcap cf) \/
  (exists o gsh code, at_ l = GAcq o /\ wop_code cf o = Some (gsh, code) /\ sm = gsh && shcap cf).
Definition blocked (cf : config) (l : loc) : Prop := exists sm, blocked_on cf l sm.

Lemma acquire_none am sm t c g : acquire am sm t c g = None ->
  obtainable sm g = false /\ (am = ABlock \/ (am = ATimed /\ c <> 2%nat)).
Proof.
  unfold acquire. destruct am; destruct (obtainable sm g) eqn:Eo; cbn; try discriminate; intros H; split; auto.
  right. split; [reflexivity|]. destruct (Nat.eqb_spec c 2); [discriminate|assumption].
Qed.

Lemma idle_enabled cf t c g pr sl o : exists r, tstep0 cf t c g (Loc (o :: pr) Idle sl) = Some r.
Proof.
  unfold tstep0. cbn [at_ prog slots].
  repeat match goal with
         | |- exists r, (match ?x with _ => _ end) = Some r => destruct x
         | |- exists r, (if ?x then _ else _) = Some r => destruct x
         | |- exists r, (let (_, _) := ?x in _) = Some r => destruct x
         end; eexists; reflexivity.
Qed.

(* the only ways to be disabled: finished, or waiting for the mutex in a blocking acquisition *)
Lemma disabled_shape cf t g l : locok cf l ->
  tstep0 cf t 0 g l = None -> tstep0 cf t 2 g l = None ->
  fin l = true \/ exists sm, blocked_on cf l sm /\ obtainable sm g = false.
Proof.
  intros [Hlen Hpc] H0 H2. destruct l as [pr p sl]. cbn [at_ slots] in *.
  destruct p.
  - destruct pr as [|o pr]; [left; reflexivity|]. destruct (idle_enabled cf t 0 g pr sl o) as [r Hr]. congruence.
  - right. unfold tstep0 in H0, H2. cbn [at_ slots prog] in H0, H2.
    destruct (acquire am (sh && shcap cf) t 0 g) as [[[g1 okk] e]|] eqn:A0.
    { destruct (slot sl h) as [old|]; [destruct (hown old)|]; discriminate. }
    destruct (acquire am (sh && shcap cf) t 2 g) as [[[g1 okk] e]|] eqn:A2.
    { destruct (slot sl h) as [old|]; [destruct (hown old)|]; discriminate. }
    destruct (acquire_none _ _ _ _ _ A2) as [Ho [->|[_ Hc]]]; [|congruence].
    exists (sh && shcap cf). split; [left; exists h, sh; split; reflexivity|exact Ho].
  - exfalso. destruct Hpc as [old [Ho _]]. unfold tstep0 in H0. cbn [at_ slots prog] in H0. rewrite Ho in H0.
    destruct (release _ _ _ _). discriminate.
  - exfalso. destruct Hpc as [[old [Ho _]] _]. unfold tstep0 in H0. cbn [at_ slots prog] in H0. rewrite Ho in H0.
    destruct (release _ _ _ _). discriminate.
  - right. unfold tstep0 in H0. cbn [at_ slots prog] in H0.
    destruct (wop_code cf o) as [[gsh code]|] eqn:Ew; [|congruence].
    destruct (acquire ABlock (gsh && shcap cf) t 0 g) as [[[g1 okk] e]|] eqn:A0; [discriminate|].
    destruct (acquire_none _ _ _ _ _ A0) as [Ho _].
    exists (gsh && shcap cf). split; [right; exists o, gsh, code; repeat split; assumption|exact Ho].
  - exfalso. destruct Hpc as [Hne _]. unfold tstep0 in H0. cbn [at_ slots prog] in H0.
    destruct code as [|i rest]; [congruence|].
    destruct (m_thrown _); [destruct fr; discriminate|].
    destruct (negb (m_done _)); [discriminate|].
    destruct (match m_rest _ with Some c' => c' | None => rest end); destruct fr; discriminate.
  - exfalso. unfold tstep0 in H0. cbn [at_ slots prog] in H0.
    destruct (wop_code cf o) as [[gsh code]|] eqn:Ew; [|congruence].
    destruct (release _ _ _ _). discriminate.
Qed.

Lemma blocked_holds_in_slots cf l : fin l = true \/ blocked cf l ->
  lx cf l = cnt (hx cf) (slots l) /\ lsh cf l = cnt (hs cf) (slots l).
Proof.
  unfold lx, lsh. intros [Hf|[sm [[h [sh [Hp _]]]|[o [gsh [code [Hp _]]]]]]].
  - unfold fin in Hf. destruct (at_ l); try discriminate. auto.
  - rewrite Hp. auto.
  - rewrite Hp. auto.
Qed.

Definition holds_in_slots (cf : config) (l : loc) : Prop := (1 <= cnt (hx cf) (slots l) + cnt (hs cf) (slots l))%nat.

Lemma quiescent_shape_l cf progs s t l :
  R cf progs s -> quiescentW cf s -> nth_error (thr s) t = Some l ->
  fin l = true \/
  (blocked cf l /\ exists a la, nth_error (thr s) a = Some la /\ holds_in_slots cf la /\ (fin la = true \/ blocked cf la)).
Proof.
  intros HR HQ Hl. destruct (R_inv _ _ _ HR) as [H1 _].
  assert (Hshape : forall u lu, nth_error (thr s) u = Some lu ->
            fin lu = true \/ exists sm, blocked_on cf lu sm /\ obtainable sm (gl s) = false).
  { intros u lu Hu. apply (disabled_shape cf u (gl s) lu (I_ok _ _ _ H1 _ _ Hu)).
    - destruct (tstep0 cf u 0 (gl s) lu) as [r|] eqn:E; [|reflexivity]. exfalso. apply (HQ u 0%nat); [lia|].
      destruct (tstep_some _ _ _ _ _ _ E) as [r' E']. exists lu, r'. auto.
    - destruct (tstep0 cf u 2 (gl s) lu) as [r|] eqn:E; [|reflexivity]. exfalso. apply (HQ u 2%nat); [lia|].
      destruct (tstep_some _ _ _ _ _ _ E) as [r' E']. exists lu, r'. auto. }
  destruct (Hshape t l Hl) as [Hf|[sm [Hb Ho]]]; [left; exact Hf|right].
  split; [exists sm; exact Hb|].
  (* somebody holds the mutex *)
  assert (exists a, (1 <= lx cf (locof (thr s) a) + lsh cf (locof (thr s) a))%nat) as [a Ha].
  { unfold obtainable, free_s, free_x in Ho.
    destruct (owner (gl s)) as [a|] eqn:Eo.
    - exists a. rewrite (I_x _ _ _ H1 a). unfold own1. rewrite Eo, Nat.eqb_refl. cbn. lia.
    - destruct sm; [discriminate|]. destruct (sharers (gl s)) as [|a r] eqn:Es; [discriminate|].
      exists a. rewrite (I_s _ _ _ H1 a). unfold shc. rewrite Es. cbn. destruct (Nat.eq_dec a a); [lia|congruence]. }
  unfold locof in Ha. destruct (nth_error (thr s) a) as [la|] eqn:Ea; [|cbn in Ha; lia].
  exists a, la. split; [exact Ea|].
  assert (fin la = true \/ blocked cf la) as Hfb.
  { destruct (Hshape a la Ea) as [?|[sm' [? _]]]; [left; assumption|right; exists sm'; assumption]. }
  destruct (blocked_holds_in_slots cf la Hfb) as [E1 E2]. unfold holds_in_slots. split; [lia|exact Hfb].
Qed.

(* absent handles kept for ever and blocking acquisitions made while holding a handle, everything finishes *)
Definition keeps_or_nests (cf : config) (s : sysW) : Prop :=
  exists a la, nth_error (thr s) a = Some la /\ holds_in_slots cf la /\ (fin la = true \/ blocked cf la).
Lemma no_deadlock_l cf progs s : R cf progs s -> quiescentW cf s -> ~ keeps_or_nests cf s ->
  all_fin glob loc fin s = true.
Proof.
  intros HR HQ Hk. unfold all_fin. apply forallb_forall. intros l Hin.
  apply In_nth_error in Hin. destruct Hin as [t Hl].
  destruct (quiescent_shape_l _ _ _ _ _ HR HQ Hl) as [Hf|[_ [a [la [Ha [Hh Hfb]]]]]]; [exact Hf|].
  exfalso. apply Hk. exists a, la. auto.
Qed.

(* a thread holding the lock inside an operation (not through a kept handle) can always move *)
Lemma holder_in_op_enabled_l cf progs s a la c : R cf progs s -> nth_error (thr s) a = Some la ->
  (1 <= pcx cf (at_ la) + pcs cf (at_ la))%nat -> enabledW cf s a c.
Proof.
  intros HR Ha Hp. destruct (R_inv _ _ _ HR) as [H1 _]. destruct (I_ok _ _ _ H1 _ _ Ha) as [Hlen Hpc].
  assert (exists r, tstep0 cf a c (gl s) la = Some r) as [r Hr]; [|destruct (tstep_some _ _ _ _ _ _ Hr) as [r' Hr']; exists la, r'; auto].
  destruct la as [pr p sl]. cbn [at_ slots] in *. unfold tstep0. cbn [at_ slots prog].
  destruct p; cbn in Hp; try lia.
  - destruct Hpc as [old [Ho _]]. rewrite Ho. destruct (release _ _ _ _). eexists; reflexivity.
  - destruct Hpc as [Hne _]. destruct code as [|i rest]; [congruence|].
    destruct (m_thrown _); [destruct fr; eexists; reflexivity|].
    destruct (negb (m_done _)); [eexists; reflexivity|].
    destruct (match m_rest _ with Some c' => c' | None => rest end); destruct fr; eexists; reflexivity.
  - destruct (wop_code cf o) as [[gsh code]|] eqn:Ew; [|congruence].
    destruct (release _ _ _ _). eexists; reflexivity.
Qed.

(* ---------- C08: every obtained lock is released exactly once ---------- *)
(* acquisition number i is held by: a handle in a slot, the new handle of an acquisition in progress, or a guard *)
Definition hidc (i : nat) (x : handle) : nat := b2n (hown x && Nat.eqb (hid x) i).
Definition pcid (i : nat) (p : pc) : nat :=
  match p with
  | HRelOld _ new => hidc i new
  | Run (FGuard _ gid) _ _ _ _ | GRel _ gid _ _ => b2n (Nat.eqb gid i)
  | _ => 0%nat
  end.
Definition idcnt (i : nat) (l : loc) : nat := (pcid i (at_ l) + cnt (hidc i) (slots l))%nat.
Definition holders (i : nat) (ls : list loc) : nat := list_sum (map (idcnt i) ls).
Definition issued (g : glob) (i : nat) : nat := b2n (Nat.leb 1 i && Nat.leb i (nacq g)).

Record Inv3 (g : glob) (ls : list loc) : Prop := {
  I_id : forall i, (holders i ls + count_occ Nat.eq_dec (released g) i = issued g i)%nat
}.

Lemma hidc_disown i x : hidc i (disown x) = 0%nat. Proof. reflexivity. Qed.

(* what a step did to the acquisition ledger: nothing, issued the next id, or released id j *)
Definition lrel (k : option (bool * nat)) (g g' : glob) : Prop :=
  match k with
  | None => nacq g' = nacq g /\ released g' = released g
  | Some (true, j) => j = S (nacq g) /\ nacq g' = S (nacq g) /\ released g' = released g
  | Some (false, j) => nacq g' = nacq g /\ released g' = j :: released g
  end.
Definition addid (k : option (bool * nat)) (i : nat) : nat := match k with Some (true, j) => b2n (Nat.eqb j i) | _ => 0%nat end.
Definition subid (k : option (bool * nat)) (i : nat) : nat := match k with Some (false, j) => b2n (Nat.eqb j i) | _ => 0%nat end.

Lemma Inv3_upd g ls t l g' l' k :
  Inv3 g ls -> nth_error ls t = Some l -> lrel k g g' ->
  (forall i, idcnt i l' + subid k i = idcnt i l + addid k i)%nat ->
  Inv3 g' (upd ls t l').
Proof.
  intros HI Hl Hk Hd. constructor. intros i. pose proof (I_id _ _ HI i) as E. specialize (Hd i).
  unfold holders in *. pose proof (sum_upd (idcnt i) ls t l l' Hl) as Es. unfold issued in *.
  destruct k as [[[|] j]|]; cbn [lrel addid subid] in *.
  - destruct Hk as [-> [Hn Hr]]. rewrite Hn, Hr.
    destruct (Nat.eqb_spec (S (nacq g)) i) as [Ei|Hne]; [subst i|].
    + (* the new id was never issued before: nobody holds it and it was not released *)
      assert (Nat.leb 1 (S (nacq g)) && Nat.leb (S (nacq g)) (nacq g) = false) as E0.
      { rewrite andb_false_iff. right. apply Nat.leb_gt. lia. }
      rewrite E0 in E. rewrite Nat.leb_refl. cbn in *. lia.
    + assert (Nat.leb i (S (nacq g)) = Nat.leb i (nacq g)) as E1.
      { destruct (Nat.leb_spec i (nacq g)); [apply Nat.leb_le; lia|apply Nat.leb_gt; lia]. }
      rewrite E1. cbn in *. lia.
  - destruct Hk as [Hn Hr]. rewrite Hn, Hr. cbn [count_occ].
    destruct (Nat.eq_dec j i) as [Ej|Hne]; [subst j|].
    + rewrite Nat.eqb_refl in Hd. cbn in Hd. lia.
    + destruct (Nat.eqb_spec j i); [congruence|]. cbn in Hd. lia.
  - destruct Hk as [Hn Hr]. rewrite Hn, Hr. lia.
Qed.

Lemma acquire_ledger_true am sm t c g g' e : acquire am sm t c g = Some (g', true, e) -> lrel (Some (true, nacq g')) g g'.
Proof. intros H. destruct (acquire_true _ _ _ _ _ _ _ H) as [_ ->]. destruct sm; cbn; auto. Qed.
Lemma acquire_ledger_false am sm t c g g' e : acquire am sm t c g = Some (g', false, e) -> lrel None g g'.
Proof. intros H. destruct (acquire_false _ _ _ _ _ _ _ H) as [_ ->]. cbn; auto. Qed.
Lemma release_ledger sm t i g g' e : release sm t i g = (g', e) -> lrel (Some (false, i)) g g'.
Proof. intros H. rewrite (release_eq _ _ _ _ _ _ H). destruct sm; cbn; auto. Qed.
Lemma exec_mi_ledger cf t i ph r ok g : lrel None g (m_g (exec_mi cf t i ph r ok g)).
Proof.
  unfold exec_mi. destruct i as [fid snap| |tg s| |e d]; cbn.
  - destruct (existsb _ _); cbn; auto.
  - destruct ph; cbn; auto.
  - destruct tg; destruct ph; cbn; auto.
  - destruct ph as [|[|[|ph]]]; cbn; auto.
  - destruct ph; cbn; auto.
Qed.

Lemma Inv3_init cf progs : Inv3 (gl (init cf progs)) (thr (init cf progs)).
Proof.
  constructor. intros i. unfold holders, issued, init. cbn [gl thr nacq released count_occ].
  rewrite sum_zero.
  - destruct i; cbn; [reflexivity|]. reflexivity.
  - intros u x Hx. rewrite nth_error_map in Hx. destruct (nth_error progs u); inversion Hx. reflexivity.
Qed.

Lemma Inv3_step cf : forall g ls t c l g' l' es,
  Inv1 cf g ls -> Inv3 g ls -> nth_error ls t = Some l -> tstep0 cf t c g l = Some (g', l', es) -> Inv3 g' (upd ls t l').
Proof.
  intros g ls t c l g' l' es H1 HI Hl Hs.
  destruct (I_ok _ _ _ H1 _ _ Hl) as [Hlen Hpc].
  destruct l as [pr p sl]. cbn [at_ slots] in *.
  step_cases Hs; bool_hyps.
  all: try match goal with H : acquire ABlock _ _ _ _ = Some (_, ?b, _) |- _ => pose proof (acquire_block _ _ _ _ _ _ _ H); subst b end.
  all: try match goal with H : acquire _ _ _ _ _ = Some (_, ?b, _) |- _ => is_var b; destruct b end.
  all: first
    [ match goal with H : acquire _ _ _ _ _ = Some (_, true, _) |- _ =>
        eapply (Inv3_upd _ ls t _ _ _ _ HI Hl (acquire_ledger_true _ _ _ _ _ _ _ H)) end
    | match goal with H : acquire _ _ _ _ _ = Some (_, false, _) |- _ =>
        eapply (Inv3_upd _ ls t _ _ _ _ HI Hl (acquire_ledger_false _ _ _ _ _ _ _ H)) end
    | match goal with H : release _ _ _ _ = (_, _) |- _ =>
        eapply (Inv3_upd _ ls t _ _ _ _ HI Hl (release_ledger _ _ _ _ _ _ H)) end
    | match goal with |- context [exec_mi ?a ?b ?c ?d ?e ?f ?g0] =>
        eapply (Inv3_upd _ ls t _ _ _ _ HI Hl (exec_mi_ledger a b c d e f g0)) end
    | eapply (Inv3_upd _ ls t _ _ _ None HI Hl); [split; reflexivity|] ].
  all: intros i; unfold idcnt; cbn [at_ slots pcid addid subid].
  all: try lia.
  all: try match goal with |- context [after_rel ?k _] => destruct k; unfold after_rel; cbn [rel_slot] in * end.
  all: repeat match goal with
       | H : exists _, _ |- _ => destruct H
       | H : _ /\ _ |- _ => destruct H
       end.
  all: try match goal with H : slot ?sl ?s <> None |- _ => destruct (slot sl s) eqn:?; [|congruence] end.
  all: try match goal with |- context [do_move ?sl ?s ?d] =>
         match goal with Hs : slot sl s = Some ?x |- _ =>
           let E1 := fresh "EM" in
           assert (d < length sl)%nat by first [ lia | eapply slot_some_lt; eassumption ];
           pose proof (cnt_move (hidc i) sl s d x Hs ltac:(assumption) ltac:(assumption)) as E1;
           rewrite ?hidc_disown in *
         end end.
  all: repeat match goal with H : slot _ ?h = _ |- _ => rewrite H in * end.
  all: repeat match goal with H : Some _ = Some _ |- _ => inversion H; clear H; subst end.
  all: cnt_facts cf sl Hlen.
  all: repeat match goal with H : slot _ ?h = _ |- _ => rewrite H in * end.
  all: repeat match goal with |- context [cnt ?f ?l] => let C := fresh "C" in set (C := cnt f l) in * end.
  all: unfold hidc, b2n in *; cbn [hown hsh hnn hid oh disown nulled] in *.
  all: repeat match goal with
       | H : ?a = true |- _ => rewrite H in *
       | H : ?a = false |- _ => rewrite H in *
       end; cbn [andb negb orb] in *.
  all: try lia.
  all: repeat match goal with
       | |- context [if ?b then _ else _] => destruct b eqn:?
       | H : context [if ?b then _ else _] |- _ => destruct b eqn:?
       end; cbn [andb negb orb] in *; try lia.
Qed.

Lemma R_inv3 cf progs s : R cf progs s -> Inv3 (gl s) (thr s).
Proof.
  intros H.
  assert (Inv1 cf (gl s) (thr s) /\ Inv3 (gl s) (thr s)) as [_ H3]; [|exact H3].
  refine (reachable_inv glob loc (tstep cf) (fun g ls => Inv1 cf g ls /\ Inv3 g ls) _ _ _ _ H).
  - apply (lift_step cf (fun g ls => Inv1 cf g ls /\ Inv3 g ls)).
    intros g ls t c l g' l' es [H1 H3] Hl Hs. split; [eapply Inv1_step|eapply Inv3_step]; eauto.
  - split; [apply Inv1_init|apply Inv3_init].
Qed.

Lemma released_exactly_once_l cf progs s i : R cf progs s ->
  (holders i (thr s) + count_occ Nat.eq_dec (released (gl s)) i = issued (gl s) i)%nat.
Proof. intros HR. apply (I_id _ _ (R_inv3 _ _ _ HR)). Qed.

Lemma issued_le g i : (issued g i <= 1)%nat.
Proof. unfold issued. destruct (_ && _); cbn; lia. Qed.
Lemma never_released_twice_l cf progs s i : R cf progs s ->
  (count_occ Nat.eq_dec (released (gl s)) i <= 1)%nat.
Proof. intros HR. pose proof (released_exactly_once_l _ _ _ i HR). pose proof (issued_le (gl s) i). lia. Qed.
Lemma released_when_chain_ends_l cf progs s i : R cf progs s -> (1 <= i <= nacq (gl s))%nat ->
  (holders i (thr s) = 0%nat <-> count_occ Nat.eq_dec (released (gl s)) i = 1%nat).
Proof.
  intros HR [Hi1 Hi2]. pose proof (released_exactly_once_l _ _ _ i HR) as E. unfold issued in E.
  assert (Nat.leb 1 i && Nat.leb i (nacq (gl s)) = true) as E1.
  { apply andb_true_iff. split; apply Nat.leb_le; lia. }
  rewrite E1 in E. cbn in E. lia.
Qed.

(* a handle that owns its lock keeps the mutex held, in its mode, for its thread *)
Lemma handle_keeps_lock_l cf progs s t l h x : R cf progs s -> nth_error (thr s) t = Some l ->
  slot (slots l) h = Some x -> hown x = true ->
  if hsh x && shcap cf then (1 <= count_occ Nat.eq_dec (sharers (gl s)) t)%nat else owner (gl s) = Some t.
Proof.
  intros HR Hl Hx Ho. destruct (R_inv1 _ _ _ HR) as [_ IX IS _].
  specialize (IX t). specialize (IS t). rewrite (locof_at _ _ _ Hl) in IX, IS. unfold lx, lsh, shc in *.
  pose proof (cnt_ge (hx cf) _ _ _ Hx) as Gx. pose proof (cnt_ge (hs cf) _ _ _ Hx) as Gs.
  unfold hx at 1 in Gx. unfold hs at 1 in Gs. rewrite Ho in Gx, Gs. cbn [andb] in Gx, Gs.
  destruct (hsh x && shcap cf); cbn in Gx, Gs; [lia|]. apply own1_pos. lia.
Qed.
(* the handles of a thread are changed only by that thread's own steps *)
Lemma other_steps_keep_handles (cf : config) (s : sysW) t u c : u <> t ->
  nth_error (thr (step glob loc (tstep cf) s (u, c))) t = nth_error (thr s) t.
Proof.
  intros Hne. unfold step, sys_step. destruct (nth_error (thr s) u) as [l|]; [|reflexivity].
  destruct (tstep cf u c (gl s) l) as [[[g' l'] es]|]; [|reflexivity]. cbn. apply nth_upd_ne. exact Hne.
Qed.

(* try / timed / blocking acquisition with locking enabled: the handle is non-null exactly when its lock
   object owns, and it owns exactly when the mutex was obtainable at that step *)
Lemma try_null_iff_l cf t c g l g' l' es h am sh :
  at_ l = HAcq h am sh -> tstep0 cf t c g l = Some (g', l', es) ->
  exists new, hsh new = sh /\ hnn new = hown new /\ hown new = obtainable (sh && shcap cf) g /\
    ((at_ l' = HRelOld h new /\ slots l' = slots l) \/
     (at_ l' = Idle /\ slots l' = upd (slots l) h (Some new) /\ In (ret_ev (b2z (hnn new))) es)).
Proof.
  intros Hp Hs. destruct l as [pr p sl]. cbn [at_ slots] in *. subst p.
  unfold tstep0 in Hs. cbn [at_ slots prog] in Hs.
  destruct (acquire am (sh && shcap cf) t c g) as [[[g1 okk] e]|] eqn:A; [|discriminate].
  assert (okk = obtainable (sh && shcap cf) g) as Eo.
  { destruct okk; [destruct (acquire_true _ _ _ _ _ _ _ A)|destruct (acquire_false _ _ _ _ _ _ _ A)]; congruence. }
  exists (H sh okk okk (if okk then nacq g1 else 0%nat)). cbn [hsh hnn hown].
  repeat split; [exact Eo|].
  destruct (slot sl h) as [old|]; [destruct (hown old)|]; inversion Hs; subst; cbn [at_ slots].
  - left. auto.
  - right. repeat split. cbn. auto.
  - right. repeat split. cbn. auto.
Qed.

(* a try / timed acquisition can always complete: it is enabled under the time-out choice *)
Lemma timed_never_stuck_l cf t g pr sl h am sh : am <> ABlock ->
  exists r, tstep0 cf t 2 g (Loc pr (HAcq h am sh) sl) = Some r.
Proof.
  intros Ham. unfold tstep0. cbn [at_ slots prog].
  assert (exists x, acquire am (sh && shcap cf) t 2 g = Some x) as [[[g1 okk] e] ->].
  { unfold acquire. destruct am; [congruence| |]; rewrite ?orb_true_r; eexists; reflexivity. }
  destruct (slot sl h) as [old|]; [destruct (hown old)|]; eexists; reflexivity.
Qed.
Lemma try_always_enabled_l cf t c g pr sl h sh :
  exists r, tstep0 cf t c g (Loc pr (HAcq h ATry sh) sl) = Some r.
Proof.
  unfold tstep0. cbn [at_ slots prog]. unfold acquire.
  destruct (slot sl h) as [old|]; [destruct (hown old)|]; eexists; reflexivity.
Qed.

(* after unlock() the handle is null and owns nothing *)
Lemma unlock_nulls_l cf t c g l g' l' es h :
  (at_ l = Idle /\ exists pr, prog l = Unlock h :: pr) \/ at_ l = HRel (RUnlock h) ->
  tstep0 cf t c g l = Some (g', l', es) -> In (ret_ev 0) es ->
  exists x, slot (slots l') h = Some x /\ hnn x = false /\ hown x = false.
Proof.
  intros Hp Hs Hret. destruct l as [pr p sl]. cbn [at_ slots prog] in *.
  destruct Hp as [[-> [pr' ->]]| ->]; unfold tstep0 in Hs; cbn [at_ slots prog rel_slot] in Hs.
  - destruct (slot sl h) as [x|] eqn:Ex.
    + destruct (hown x); inversion Hs; subst; cbn in Hret.
      * destruct Hret as [Hr|[]]. discriminate.
      * cbn [slots]. exists (nulled x). rewrite slot_upd_eq by (eapply slot_some_lt; eauto). auto.
    + inversion Hs; subst. cbn in Hret. destruct Hret as [Hr|[Hr|[]]]; discriminate.
  - destruct (slot sl h) as [x|] eqn:Ex; [|discriminate].
    destruct (release _ _ _ _) as [g1 e]. inversion Hs; subst. cbn [slots]. unfold after_rel. rewrite Ex.
    exists (nulled x). rewrite slot_upd_eq by (eapply slot_some_lt; eauto). auto.
Qed.

(* ---------- C08: locking disabled at construction ---------- *)
Definition noown (sl : list (option handle)) : Prop := forall h x, slot sl h = Some x -> hown x = false.
Lemma noown_upd sl h y : noown sl -> (forall x, y = Some x -> hown x = false) -> noown (upd sl h y).
Proof.
  intros Hn Hy k x Hk. destruct (Nat.eq_dec h k) as [->|Hne].
  - destruct (Nat.lt_ge_cases k (length sl)) as [Hl|Hl].
    + rewrite slot_upd_eq in Hk by exact Hl. auto.
    + apply slot_some_lt in Hk. rewrite upd_length in Hk. lia.
  - rewrite slot_upd_ne in Hk by exact Hne. eauto.
Qed.
Lemma noown_move sl src dst : noown sl -> noown (do_move sl src dst).
Proof.
  intros Hn. unfold do_move. destruct (slot sl src) as [x|] eqn:Ex; [|exact Hn].
  apply noown_upd; [apply noown_upd; [exact Hn|]|]; intros y Hy; inversion Hy; subst; [eauto|reflexivity].
Qed.

Lemma noown_step cf t c g l g' l' es : locking cf = false -> locok cf l -> noown (slots l) ->
  tstep0 cf t c g l = Some (g', l', es) -> noown (slots l').
Proof.
  intros Hlk [Hlen Hpc] Hn Hs. destruct l as [pr p sl]. cbn [at_ slots] in *.
  step_cases Hs; cbn [slots]; try exact Hn.
  all: repeat match goal with
       | H : exists _, _ |- _ => destruct H
       | H : _ /\ _ |- _ => destruct H
       end; try congruence.
  all: repeat match goal with H : Some _ = Some _ |- _ => inversion H; clear H; subst end.
  all: try (apply noown_move; exact Hn).
  all: try (apply noown_upd; [exact Hn|intros y Hy; inversion Hy; subst; reflexivity]).
  all: try (apply noown_upd; [exact Hn|discriminate]).
  all: try match goal with Ho : slot _ _ = Some ?o, Hw : hown ?o = true |- _ => rewrite (Hn _ _ Ho) in Hw; discriminate end.
Qed.

Lemma noown_init cf progs u l : nth_error (thr (init cf progs)) u = Some l -> noown (slots l).
Proof.
  unfold init. cbn [thr]. rewrite nth_error_map. destruct (nth_error progs u) as [p|]; cbn [option_map]; intros H.
  - injection H as <-. cbn [slots]. intros h x Hx. unfold slot, NSLOTS in Hx.
    destruct h as [|[|[|h]]]; cbn in Hx; try discriminate. destruct h; discriminate.
  - discriminate.
Qed.

Definition no_mutex_pc (p : pc) : Prop :=
  match p with HAcq _ _ _ | HRelOld _ _ | HRel _ => False | _ => True end.

(* with locking disabled no handle ever owns a lock, and no thread is ever inside a handle operation
   that touches the mutex or waits: handle operations complete in their invocation step *)
Lemma disabled_never_locks_l cf progs s t l : R cf progs s -> locking cf = false ->
  nth_error (thr s) t = Some l -> noown (slots l) /\ no_mutex_pc (at_ l).
Proof.
  intros HR Hlk Hl.
  assert (HI : Inv1 cf (gl s) (thr s) /\ forall u lu, nth_error (thr s) u = Some lu -> noown (slots lu)).
  { refine (reachable_inv glob loc (tstep cf)
              (fun g ls => Inv1 cf g ls /\ forall u lu, nth_error ls u = Some lu -> noown (slots lu)) _ _ _ _ HR).
    - apply (lift_step cf (fun g ls => Inv1 cf g ls /\ forall u lu, nth_error ls u = Some lu -> noown (slots lu))).
      intros g ls t0 c l0 g' l' es [H1 Hn] Hl0 Hs. split; [eapply Inv1_step; eauto|].
      intros u lu Hu. destruct (nth_upd _ _ _ _ _ Hu) as [[-> [-> _]]|[_ Hu']]; [|eauto].
      eapply noown_step; eauto. eapply I_ok; eauto.
    - split; [apply Inv1_init|]. intros u lu. apply noown_init. }
  destruct HI as [H1 Hn]. split; [eauto|].
  destruct (I_ok _ _ _ H1 _ _ Hl) as [_ Hpc]. specialize (Hn _ _ Hl).
  destruct (at_ l); cbn; auto.
  - destruct Hpc as [_ Hk]. congruence.
  - destruct Hpc as [old [Ho Hw]]. rewrite (Hn _ _ Ho) in Hw. discriminate.
  - destruct Hpc as [[old [Ho Hw]] _]. rewrite (Hn _ _ Ho) in Hw. discriminate.
Qed.

(* ... and every acquisition is enabled in every state, returns a non-null handle at once and emits no mutex operation *)
Lemma disabled_acquire_l cf t c g pr sl o h am sh : locking cf = false -> noown sl ->
  acq_of cf o = Some (h, am, sh) -> (h < NSLOTS)%nat ->
  tstep0 cf t c g (Loc (o :: pr) Idle sl) =
  Some (g, Loc pr Idle (upd sl h (Some (H sh true false 0))), [inv_ev o; ret_ev 1]).
Proof.
  intros Hlk Hn Ha Hh. unfold tstep0. cbn [at_ prog slots].
  assert (in_range h = true) as Hr by (apply in_range_lt; exact Hh).
  assert (Hold : forall old, slot sl h = Some old -> hown old = false) by (intros old Ho; eapply Hn; eauto).
  destruct o; cbn in Ha; try discriminate; rewrite Ha, Hr, Hlk; cbn [negb];
    (destruct (slot sl h) as [old|] eqn:Eo; [rewrite (Hold old eq_refl)|]; reflexivity).
Qed.

(* ---------- C01: the static client obligation (wf_progs) ---------- *)
(* A sequential abstract execution of one thread's program that tracks, per slot, whether a handle is there,
   its type, and whether it MAY own a lock (every acquisition is assumed to succeed).  The program is well
   formed when no blocking acquisition (lock, lock_shared, const lock, any whole-object operation) is made
   while some handle of the thread may own a lock, and no handle may own a lock at the end. *)
Definition aslot := option (bool * bool).
Definition ao (o : option handle) : aslot := option_map (fun x => (hsh x, hown x)) o.
Definition al (sl : list (option handle)) : list aslot := map ao sl.
Definition aget (a : list aslot) (h : nat) : aslot := match nth_error a h with Some x => x | None => None end.
Definition aown (x : aslot) : bool := match x with Some (_, true) => true | _ => false end.
Definition any_own (a : list aslot) : bool := existsb aown a.
Definition adis (x : bool * bool) : aslot := Some (fst x, false).
Definition amove (a : list aslot) (src dst : nat) : list aslot :=
  match aget a src with Some x => upd (upd a dst (Some x)) src (adis x) | None => a end.

Definition astep (cf : config) (o : op) (a : list aslot) : option (list aslot) :=
  match o with
  | Lock _ | TryLock _ | TryLockFor _ | TryLockUntil _ | LockShared _ | TryLockShared _
  | TryLockSharedFor _ | TryLockSharedUntil _ | ConstLock _ =>
    match acq_of cf o with
    | None => Some a
    | Some (h, am, sh) =>
      if negb (in_range h) then Some a
      else if locking cf then
        match am with
        | ABlock => if any_own a then None else Some (upd a h (Some (sh, true)))
        | _ => Some (upd a h (Some (sh, true)))
        end
      else Some (upd a h (Some (sh, false)))
    end
  | Unlock h => match aget a h with None => Some a | Some x => Some (upd a h (adis x)) end
  | Destroy h => match aget a h with None => Some a | Some _ => Some (upd a h None) end
  | MoveCtor src dst => if negb (in_range dst) || Nat.eqb src dst then Some a else Some (amove a src dst)
  | MoveAssign src dst =>
    if Nat.eqb src dst then Some a else
    match aget a src, aget a dst with
    | Some x, Some y => if negb (Bool.eqb (fst x) (fst y)) then Some a else Some (amove a src dst)
    | _, _ => Some a
    end
  | Use _ _ _ | BoolOp _ | Bad _ => Some a
  | Load | Store _ | Assign _ | Modify _ | ReadF _ | Exchange _ | Cas _ _ | Cast =>
    match wop_code cf o with
    | None => Some a
    | Some _ => if any_own a then None else Some a
    end
  end.
Fixpoint wf_from (cf : config) (a : list aslot) (p : list op) : bool :=
  match p with
  | [] => negb (any_own a)
  | o :: r => match astep cf o a with None => false | Some a' => wf_from cf a' r end
  end.
Definition wf_progs (cf : config) (progs : list (list op)) : bool :=
  forallb (wf_from cf (repeat None NSLOTS)) progs.

(* order on abstract states: same handles, same types, may-own only grows *)
Definition sle (x y : aslot) : Prop :=
  match x, y with
  | None, None => True
  | Some (s, m), Some (s', m') => s = s' /\ (m = true -> m' = true)
  | _, _ => False
  end.
Definition ale (a a' : list aslot) : Prop := Forall2 sle a a'.
Lemma sle_refl x : sle x x. Proof. destruct x as [[s m]|]; cbn; auto. Qed.
Lemma ale_refl a : ale a a. Proof. induction a; constructor; auto using sle_refl. Qed.
Lemma ale_upd a a' h x y : ale a a' -> sle x y -> ale (upd a h x) (upd a' h y).
Proof.
  intros H. revert h. induction H as [|p q a a' Hpq H IH]; intros h Hxy; destruct h; cbn; try constructor; auto.
  apply IH. exact Hxy.
Qed.
Lemma ale_aget a a' h : ale a a' -> sle (aget a h) (aget a' h).
Proof.
  intros H. revert h. unfold aget. induction H as [|p q a a' Hpq H IH]; intros h; destruct h; cbn; auto.
Qed.
Lemma aown_le x y : sle x y -> aown x = true -> aown y = true.
Proof. destruct x as [[s [|]]|], y as [[s' m']|]; cbn; try tauto; try discriminate. intros [_ H] _. rewrite H; auto. Qed.
Lemma any_own_le a a' : ale a a' -> any_own a = true -> any_own a' = true.
Proof.
  intros H. unfold any_own. induction H as [|p q a a' Hpq H IH]; cbn; [auto|].
  intros Ho. apply orb_true_iff in Ho. apply orb_true_iff. destruct Ho; [left; eapply aown_le; eauto|right; auto].
Qed.
Lemma any_own_le_false a a' : ale a a' -> any_own a' = false -> any_own a = false.
Proof. intros H Hf. destruct (any_own a) eqn:E; [|reflexivity]. rewrite (any_own_le _ _ H E) in Hf. discriminate. Qed.
Lemma amove_le a a' src dst : ale a a' -> ale (amove a src dst) (amove a' src dst).
Proof.
  intros H. unfold amove. pose proof (ale_aget a a' src H) as Hs.
  destruct (aget a src) as [[s m]|], (aget a' src) as [[s' m']|]; cbn in Hs; try tauto.
  destruct Hs as [-> Hm]. apply ale_upd; [apply ale_upd; [exact H|cbn; auto]|cbn; auto].
Qed.

Lemma astep_mono cf o a a' b' : ale a a' -> astep cf o a' = Some b' -> exists b, astep cf o a = Some b /\ ale b b'.
Proof.
  intros H Hs.
  assert (Hacq : forall h am sh,
    (if negb (in_range h) then Some a'
     else if locking cf then match am with
            | ABlock => if any_own a' then None else Some (upd a' h (Some (sh, true)))
            | _ => Some (upd a' h (Some (sh, true))) end
          else Some (upd a' h (Some (sh, false)))) = Some b' ->
    exists b, (if negb (in_range h) then Some a
     else if locking cf then match am with
            | ABlock => if any_own a then None else Some (upd a h (Some (sh, true)))
            | _ => Some (upd a h (Some (sh, true))) end
          else Some (upd a h (Some (sh, false)))) = Some b /\ ale b b').
  { intros h am sh E. destruct (negb (in_range h)); [inversion E; subst; eauto|].
    destruct (locking cf).
    - destruct am.
      + destruct (any_own a') eqn:Ea; [discriminate|]. rewrite (any_own_le_false _ _ H Ea).
        inversion E; subst. eexists; split; [reflexivity|]. apply ale_upd; [exact H|apply sle_refl].
      + inversion E; subst. eexists; split; [reflexivity|]. apply ale_upd; [exact H|apply sle_refl].
      + inversion E; subst. eexists; split; [reflexivity|]. apply ale_upd; [exact H|apply sle_refl].
    - inversion E; subst. eexists; split; [reflexivity|]. apply ale_upd; [exact H|apply sle_refl]. }
  assert (Hwop : (match wop_code cf o with None => Some a' | Some _ => if any_own a' then None else Some a' end) = Some b' ->
    exists b, (match wop_code cf o with None => Some a | Some _ => if any_own a then None else Some a end) = Some b /\ ale b b').
  { intros E. destruct (wop_code cf o); [|inversion E; subst; eauto].
    destruct (any_own a') eqn:Ea; [discriminate|]. rewrite (any_own_le_false _ _ H Ea). inversion E; subst; eauto. }
  destruct o; cbn [astep] in *; try (inversion Hs; subst; eauto; fail); try (apply Hwop; exact Hs);
    try (destruct (acq_of cf _) as [[[h0 am] sh]|]; [apply Hacq; exact Hs|inversion Hs; subst; eauto]; fail).
  - (* Unlock *) pose proof (ale_aget a a' h H) as Hg.
    destruct (aget a h) as [[s m]|], (aget a' h) as [[s' m']|]; cbn in Hg; try tauto; inversion Hs; subst; eauto.
    destruct Hg as [-> _]. eexists; split; [reflexivity|]. apply ale_upd; [exact H|cbn; auto].
  - (* Destroy *) pose proof (ale_aget a a' h H) as Hg.
    destruct (aget a h) as [[s m]|], (aget a' h) as [[s' m']|]; cbn in Hg; try tauto; inversion Hs; subst; eauto.
    eexists; split; [reflexivity|]. apply ale_upd; [exact H|exact I].
  - (* MoveCtor *) destruct (negb (in_range dst) || Nat.eqb src dst); inversion Hs; subst; eauto using amove_le.
  - (* MoveAssign *) destruct (Nat.eqb src dst); [inversion Hs; subst; eauto|].
    pose proof (ale_aget a a' src H) as G1. pose proof (ale_aget a a' dst H) as G2.
    destruct (aget a src) as [[s1 m1]|], (aget a' src) as [[s1' m1']|]; cbn in G1; try tauto;
      try (inversion Hs; subst; eauto; fail).
    destruct (aget a dst) as [[s2 m2]|], (aget a' dst) as [[s2' m2']|]; cbn in G2; try tauto;
      try (inversion Hs; subst; eauto; fail).
    destruct G1 as [-> _], G2 as [-> _]. cbn [fst] in *.
    destruct (negb (Bool.eqb s1' s2')); inversion Hs; subst; eauto using amove_le.
Qed.
Lemma wf_from_mono cf p : forall a a', ale a a' -> wf_from cf a' p = true -> wf_from cf a p = true.
Proof.
  induction p as [|o r IH]; intros a a' H Hw; cbn [wf_from] in *.
  - apply negb_true_iff in Hw. apply negb_true_iff. eapply any_own_le_false; eauto.
  - destruct (astep cf o a') as [b'|] eqn:E; [|discriminate].
    destruct (astep_mono cf o a a' b' H E) as [b [-> Hb]]. eapply IH; eauto.
Qed.

Lemma sle_trans x y z : sle x y -> sle y z -> sle x z.
Proof.
  destruct x as [[s m]|], y as [[s' m']|], z as [[s2 m2]|]; cbn; try tauto. intros [-> H1] [-> H2]. auto.
Qed.
Lemma ale_trans a b c : ale a b -> ale b c -> ale a c.
Proof.
  intros H. revert c. induction H as [|p q a b Hpq H IH]; intros c Hc; inversion Hc; subst; constructor.
  - eapply sle_trans; eauto.
  - apply IH. assumption.
Qed.

(* abstraction of the concrete slot table *)
Lemma al_upd sl h y : al (upd sl h y) = upd (al sl) h (ao y).
Proof. unfold al. revert h. induction sl as [|x r IH]; intros [|h]; cbn; try reflexivity. rewrite IH. reflexivity. Qed.
Lemma aget_al sl h : aget (al sl) h = ao (slot sl h).
Proof. unfold aget, al, slot. rewrite nth_error_map. destruct (nth_error sl h) as [[x|]|]; reflexivity. Qed.
Lemma al_move sl src dst : al (do_move sl src dst) = amove (al sl) src dst.
Proof.
  unfold do_move, amove. rewrite aget_al. destruct (slot sl src) as [x|]; cbn [ao option_map]; [|reflexivity].
  rewrite !al_upd. reflexivity.
Qed.
Lemma any_own_al sl : any_own (al sl) = false -> forall h x, slot sl h = Some x -> hown x = false.
Proof.
  unfold any_own, al, slot. induction sl as [|o r IH]; intros Hf h x Hx.
  - destruct h; discriminate.
  - cbn in Hf. apply orb_false_iff in Hf as [Ho Hr]. destruct h as [|h]; cbn in Hx.
    + subst o. cbn in Ho. destruct (hown x); [discriminate|reflexivity].
    + eapply IH; eauto.
Qed.

(* the abstract state in which the current operation will leave the slots (pending acquisitions succeed) *)
Definition apost (l : loc) : list aslot :=
  match at_ l with
  | HAcq h _ sh => upd (al (slots l)) h (Some (sh, true))
  | HRelOld h new => upd (al (slots l)) h (Some (hsh new, hown new))
  | HRel k => al (after_rel k (slots l))
  | _ => al (slots l)
  end.
Definition wfl (cf : config) (l : loc) : Prop :=
  (exists a, ale (apost l) a /\ wf_from cf a (prog l) = true) /\
  match at_ l with
  | HAcq _ ABlock _ | GAcq _ => any_own (al (slots l)) = false
  | _ => True
  end.

Lemma wfl_step cf t c g l g' l' es : locok cf l -> wfl cf l -> tstep0 cf t c g l = Some (g', l', es) -> wfl cf l'.
Proof.
  intros [Hlen Hpc] [[a [Ha Hw]] Hside] Hs. destruct l as [pr p sl]. unfold apost in Ha. cbn [at_ slots prog] in *.
  destruct p.
  1: { (* an operation starts: follow the abstract step *)
    destruct pr as [|o rest]; [discriminate|].
    cbn [wf_from] in Hw. destruct (astep cf o a) as [a1|] eqn:Ea; [|discriminate].
    destruct (astep_mono cf o _ _ _ Ha Ea) as [b [Eb Hb]].
    assert (Hgoal : forall p' sl', (ale (apost (Loc rest p' sl')) b) ->
              match p' with HAcq _ ABlock _ | GAcq _ => any_own (al sl') = false | _ => True end ->
              wfl cf (Loc rest p' sl')).
    { intros p' sl' H1 H2. split; [exists a1; split; [|exact Hw]|exact H2].
      eapply ale_trans; eauto. }
    clear Ha Ea Hw Hb. 
    step_cases Hs;
      repeat match goal with
      | H : negb _ = false |- _ => apply negb_false_iff in H
      | H : negb _ = true |- _ => apply negb_true_iff in H
      | H : _ || _ = false |- _ => apply orb_false_iff in H; destruct H
      end; apply Hgoal; unfold apost; cbn [at_ slots astep] in *.
    all: unfold after_rel in *.
    all: repeat match goal with H : slot _ _ = _ |- _ => rewrite H in * end.
    all: rewrite ?al_upd, ?al_move, ?aget_al in *.
    all: repeat match goal with H : slot _ _ = _ |- _ => rewrite H in * end.
    all: repeat match goal with
         | H : Nat.eqb _ _ = _ |- _ => rewrite H in *
         | H : Bool.eqb _ _ = _ |- _ => rewrite H in *
         | H : hown _ = _ |- _ => rewrite H in *
         | H : _ || _ = true |- _ => rewrite H in *
         end.
    all: unfold amove in *; rewrite ?aget_al in *; repeat match goal with H : slot _ _ = _ |- _ => rewrite H in * end.
    all: repeat match goal with H : acq_of _ _ = _ |- _ => rewrite H in * end.
    all: repeat match goal with H : wop_code _ _ = _ |- _ => rewrite H in * end.
    all: repeat match goal with H : in_range _ = _ |- _ => rewrite H in * end.
    all: repeat match goal with H : locking _ = _ |- _ => rewrite H in * end.
    all: cbn [ao option_map negb orb adis fst hsh hown hnn hid nulled disown] in *.
    all: repeat match goal with
         | H : Bool.eqb _ _ = _ |- _ => rewrite H in *
         | H : hown _ = _ |- _ => rewrite H in *
         end; cbn [negb] in *.
    all: try (inversion Eb; subst; first [apply ale_refl | exact I | reflexivity]).
    all: try match goal with a0 : amode |- _ => destruct a0 end.
    all: try (destruct (any_own (al sl)) eqn:Eany; try discriminate).
    all: try (inversion Eb; subst; first [apply ale_refl | exact I | reflexivity]).
  }
  all: step_cases Hs; (split; [exists a; split; [|exact Hw]|try exact I]); unfold apost in *; cbn [at_ slots] in *.
  all: rewrite ?al_upd in *; cbn [ao option_map hsh hown] in *.
  all: try exact Ha.
  all: try (eapply ale_trans; [|exact Ha]; apply ale_upd; [apply ale_refl|cbn; auto; fail]).
Qed.

Lemma R_wfl cf progs s : wf_progs cf progs = true -> R cf progs s ->
  forall u l, nth_error (thr s) u = Some l -> wfl cf l.
Proof.
  intros Hwf HR.
  assert (HI : Inv1 cf (gl s) (thr s) /\ forall u lu, nth_error (thr s) u = Some lu -> wfl cf lu); [|apply HI].
  refine (reachable_inv glob loc (tstep cf)
            (fun g ls => Inv1 cf g ls /\ forall u lu, nth_error ls u = Some lu -> wfl cf lu) _ _ _ _ HR).
  - apply (lift_step cf (fun g ls => Inv1 cf g ls /\ forall u lu, nth_error ls u = Some lu -> wfl cf lu)).
    intros g ls t0 c l0 g' l' es [H1 Hn] Hl0 Hs. split; [eapply Inv1_step; eauto|].
    intros u lu Hu. destruct (nth_upd _ _ _ _ _ Hu) as [[-> [-> _]]|[_ Hu']]; [|eauto].
    eapply wfl_step; eauto. eapply I_ok; eauto.
  - split; [apply Inv1_init|]. intros u lu Hu. unfold init in Hu. cbn [thr] in Hu.
    rewrite nth_error_map in Hu. destruct (nth_error progs u) as [p|] eqn:Ep; cbn in Hu; [|discriminate].
    injection Hu as <-. split; [|exact I]. exists (repeat None NSLOTS). split; [apply ale_refl|].
    unfold wf_progs in Hwf. rewrite forallb_forall in Hwf. apply Hwf. eapply nth_error_In; eauto.
Qed.

Lemma wfl_releases cf l : wfl cf l -> fin l = true \/ blocked cf l -> ~ holds_in_slots cf l.
Proof.
  intros [[a [Ha Hw]] Hside] Hfb Hh.
  assert (any_own (al (slots l)) = false) as Hno.
  { destruct Hfb as [Hf|[sm [[h [sh [Hp _]]]|[o [gsh [code [Hp _]]]]]]].
    - unfold fin in Hf. unfold apost in Ha. destruct (at_ l); try discriminate. destruct (prog l); [|discriminate].
      cbn in Hw. apply negb_true_iff in Hw. eapply any_own_le_false; eauto.
    - rewrite Hp in Hside. exact Hside.
    - rewrite Hp in Hside. exact Hside. }
  pose proof (any_own_al _ Hno) as Hz. unfold holds_in_slots in Hh.
  rewrite !cnt_zero in Hh; [lia| |]; intros h x Hx; unfold hx, hs; rewrite (Hz h x Hx); reflexivity.
Qed.

Lemma wf_no_nesting_l cf progs s : wf_progs cf progs = true -> R cf progs s -> ~ keeps_or_nests cf s.
Proof.
  intros Hwf HR [a [la [Ha [Hh Hfb]]]]. exact (wfl_releases cf la (R_wfl cf progs s Hwf HR a la Ha) Hfb Hh).
Qed.

(* ================================================================== *)
(* C02: readers and writers never overlap; readers can share            *)
(* ================================================================== *)
(* what one step can do to the exclusive owner: nothing, release it, or take it - only when the mutex is free *)
Lemma owner_step cf t c g l g' l' es : tstep0 cf t c g l = Some (g', l', es) ->
  owner g' = owner g \/ owner g' = None \/ (owner g' = Some t /\ free_x g = true).
Proof.
  intros Hs. destruct l as [pr p sl].
  step_cases Hs; auto.
  all: try match goal with H : acquire _ _ _ _ _ = Some (_, ?b, _) |- _ => is_var b; destruct b end.
  all: try match goal with H : acquire _ ?sm _ _ _ = Some (_, true, _) |- _ =>
         destruct (acquire_true _ _ _ _ _ _ _ H) as [Hobt ->]; destruct sm; cbn in *; auto end.
  all: try match goal with H : acquire _ _ _ _ _ = Some (_, false, _) |- _ =>
         destruct (acquire_false _ _ _ _ _ _ _ H) as [_ ->]; auto end.
  all: try match goal with H : release ?sm _ _ _ = (_, _) |- _ =>
         rewrite (release_eq _ _ _ _ _ _ H); destruct sm; cbn; auto end.
  all: try (left; apply exec_mi_mutex).
Qed.

(* the invisible accesses of the plain kind (settle) are steps of operation bodies: they do not touch the mutex *)
Lemma tstep0_run_glob cf t c g pr sl fr i rest ph r ok g' l' es :
  tstep0 cf t c g (Loc pr (Run fr (i :: rest) ph r ok) sl) = Some (g', l', es) ->
  g' = m_g (exec_mi cf t i ph r ok g).
Proof.
  unfold tstep0. cbn [at_ slots prog]. intros Hs.
  destruct (m_thrown _); [destruct fr; inversion Hs; reflexivity|].
  destruct (negb (m_done _)); [inversion Hs; reflexivity|].
  destruct (match m_rest _ with Some c' => c' | None => rest end); destruct fr; inversion Hs; reflexivity.
Qed.
Lemma silent_pc_run p : silent_pc p = true -> exists fr code ph r ok, p = Run fr code ph r ok.
Proof. destruct p; try discriminate. intros _. repeat eexists. Qed.
Lemma settle_mutex cf t fuel : forall g l es g2 l2 es2, settle cf t fuel g l es = (g2, l2, es2) ->
  owner g2 = owner g /\ sharers g2 = sharers g.
Proof.
  induction fuel as [|f IH]; intros g l es g2 l2 es2 Hs; cbn [settle] in Hs; [inversion Hs; auto|].
  destruct (silent_pc (at_ l)) eqn:Es; [|inversion Hs; auto].
  destruct (tstep0 cf t 0 g l) as [[[g' l'] es']|] eqn:E; [|inversion Hs; auto].
  destruct (IH _ _ _ _ _ _ Hs) as [A B]. rewrite A, B.
  destruct (silent_pc_run _ Es) as [fr [code [ph [r [ok Hp]]]]]. destruct l as [pr p sl]. cbn [at_] in Hp. subst p.
  destruct code as [|i rest]; [discriminate|].
  rewrite (tstep0_run_glob _ _ _ _ _ _ _ _ _ _ _ _ _ _ _ E). apply exec_mi_mutex.
Qed.
Lemma owner_tstep cf t c g l g' l' es : tstep cf t c g l = Some (g', l', es) ->
  owner g' = owner g \/ owner g' = None \/ (owner g' = Some t /\ free_x g = true).
Proof.
  intros Hs. destruct (tstep_inv _ _ _ _ _ _ Hs) as [g1 [l1 [es1 [E0 [Hn Hp]]]]].
  pose proof (owner_step _ _ _ _ _ _ _ _ E0) as Ho.
  destruct (plain cf) eqn:Ep; [|rewrite (Hn (or_introl eq_refl)) in *; injection (Hn (or_introl eq_refl)); intros; subst; exact Ho].
  specialize (Hp eq_refl). symmetry in Hp. destruct (settle_mutex _ _ _ _ _ _ _ _ _ Hp) as [A _]. rewrite A. exact Ho.
Qed.

Lemma R_step cf progs s tc : R cf progs s -> R cf progs (step glob loc (tstep cf) s tc).
Proof. apply reachable_step. Qed.

(* t holds the mutex in shared mode: a live shared handle, or inside read / ordered load, on a shared-capable mutex *)
Definition holds_shared (cf : config) (s : sysW) (t : nat) : Prop := (1 <= lsh cf (locof (thr s) t))%nat.

Lemma shared_no_owner cf g ls t : Inv1 cf g ls -> (1 <= lsh cf (locof ls t))%nat -> owner g = None /\ free_x g = false.
Proof.
  intros H1 Ht. rewrite (I_s _ _ _ H1) in Ht. unfold shc in Ht.
  assert (sharers g <> []) as Hne by (intros E; rewrite E in Ht; cbn in Ht; lia).
  destruct (owner g) as [a|] eqn:Eo.
  - exfalso. apply Hne. apply (I_m _ _ _ H1). congruence.
  - split; [reflexivity|]. unfold free_x. rewrite Eo. destruct (sharers g); [congruence|reflexivity].
Qed.

(* while a shared lock is held: nobody holds the mutex exclusively, and no modification window is open *)
Lemma rw_exclusion_l cf progs s t : R cf progs s -> holds_shared cf s t ->
  (forall u, lx cf (locof (thr s) u) = 0%nat) /\
  (safe cf (gl s) -> forall u, wropen (at_ (locof (thr s) u)) = false).
Proof.
  intros HR Ht. destruct (R_inv _ _ _ HR) as [H1 H2].
  destruct (shared_no_owner _ _ _ _ H1 Ht) as [Ho _].
  assert (HX : forall u, lx cf (locof (thr s) u) = 0%nat).
  { intros u. rewrite (I_x _ _ _ H1). unfold own1. rewrite Ho. reflexivity. }
  split; [exact HX|]. intros Hs u.
  destruct (wropen (at_ (locof (thr s) u))) eqn:E; [|reflexivity]. exfalso.
  destruct (wropen_run _ E) as [fr [i [rest [ph [r [ok [Hp Hro]]]]]]].
  destruct (I_cov _ _ _ H2 Hs u _ _ _ _ _ Hp) as [Hx|[_ Hn]]; [rewrite HX in Hx; discriminate|].
  cbn in Hn. rewrite Hro in Hn. discriminate.
Qed.

(* ... and no modification can start: whatever step is taken, nobody holds the mutex exclusively afterwards
   and no modification window is open (the steps that would take the exclusive lock are disabled) *)
Lemma no_mod_starts_l cf progs s t u c : R cf progs s -> holds_shared cf s t ->
  let s' := step glob loc (tstep cf) s (u, c) in
  (forall v, lx cf (locof (thr s') v) = 0%nat) /\
  (safe cf (gl s') -> forall v, wropen (at_ (locof (thr s') v)) = false).
Proof.
  intros HR Ht s'. pose proof (R_step cf progs s (u, c) HR) as HR'. fold s' in HR'.
  destruct (R_inv _ _ _ HR) as [H1 _]. destruct (R_inv _ _ _ HR') as [H1' H2'].
  destruct (shared_no_owner _ _ _ _ H1 Ht) as [Ho Hf].
  assert (Ho' : owner (gl s') = None).
  { unfold s', step, sys_step. destruct (nth_error (thr s) u) as [l|] eqn:El; [|exact Ho].
    destruct (tstep cf u c (gl s) l) as [[[g' l'] es]|] eqn:Es; [|exact Ho]. cbn.
    destruct (owner_tstep _ _ _ _ _ _ _ _ Es) as [E|[E|[_ E]]]; congruence. }
  assert (HX : forall v, lx cf (locof (thr s') v) = 0%nat).
  { intros v. rewrite (I_x _ _ _ H1'). unfold own1. rewrite Ho'. reflexivity. }
  split; [exact HX|]. intros Hs v.
  destruct (wropen (at_ (locof (thr s') v))) eqn:E; [|reflexivity]. exfalso.
  destruct (wropen_run _ E) as [fr [i [rest [ph [r [ok [Hp Hro]]]]]]].
  destruct (I_cov _ _ _ H2' Hs v _ _ _ _ _ Hp) as [Hx|[_ Hn]]; [rewrite HX in Hx; discriminate|].
  cbn in Hn. rewrite Hro in Hn. discriminate.
Qed.
(* the blocking exclusive acquisitions themselves are disabled *)
Lemma writer_blocked_l cf progs s t u c l : R cf progs s -> holds_shared cf s t ->
  nth_error (thr s) u = Some l -> blocked_on cf l false -> tstep cf u c (gl s) l = None.
Proof.
  intros HR Ht Hl Hb. apply tstep_none. destruct (R_inv _ _ _ HR) as [H1 _]. destruct (shared_no_owner _ _ _ _ H1 Ht) as [_ Hf].
  destruct l as [pr p sl]. unfold tstep0, blocked_on in *. cbn [at_ slots prog] in *.
  destruct Hb as [[h [sh [-> Em]]]|[o [gsh [code [-> [Ew Em]]]]]].
  - rewrite <- Em. unfold acquire, obtainable. rewrite Hf. reflexivity.
  - rewrite Ew, <- Em. unfold acquire, obtainable. rewrite Hf. reflexivity.
Qed.

(* readers share: with a shared-capable mutex a shared acquisition (handle, read, ordered load) is enabled
   whenever there is no exclusive owner - whatever the sharers are, under every choice *)
Lemma readers_share_handle_l cf t c g pr sl h am : shcap cf = true -> owner g = None ->
  exists r, tstep0 cf t c g (Loc pr (HAcq h am true) sl) = Some r.
Proof.
  intros Hc Ho. unfold tstep0. cbn [at_ slots prog]. rewrite Hc. cbn [andb].
  assert (exists x, acquire am true t c g = Some x) as [[[g1 okk] e] ->].
  { unfold acquire, obtainable, free_s. rewrite Ho. destruct am; cbn; eexists; reflexivity. }
  destruct (slot sl h) as [old|]; [destruct (hown old)|]; eexists; reflexivity.
Qed.
Lemma readers_share_guard_l cf t c g pr sl o code : shcap cf = true -> owner g = None ->
  wop_code cf o = Some (true, code) -> exists r, tstep0 cf t c g (Loc pr (GAcq o) sl) = Some r.
Proof.
  intros Hc Ho Ew. unfold tstep0. cbn [at_ slots prog]. rewrite Ew, Hc. cbn [andb].
  unfold acquire, obtainable, free_s. rewrite Ho. eexists; reflexivity.
Qed.

(* a plain mutex: a shared handle (or read / ordered load) holds the mutex exclusively, so it excludes everybody *)
Definition holds_shared_type (cf : config) (l : loc) : Prop :=
  (exists h x, slot (slots l) h = Some x /\ hsh x = true /\ hown x = true) \/
  (exists o gid code ph r ok c0, at_ l = Run (FGuard o gid) code ph r ok /\ wop_code cf o = Some (true, c0)).
Lemma plain_degrades_safely_l cf progs s t l u : R cf progs s -> shcap cf = false ->
  nth_error (thr s) t = Some l -> holds_shared_type cf l -> u <> t ->
  in_excl_access cf s t /\ ~ holds_lock cf s u /\ (safe cf (gl s) -> ~ in_any_access s u).
Proof.
  intros HR Hc Hl Hh Hne.
  assert (in_excl_access cf s t) as Hx.
  { unfold in_excl_access. rewrite (locof_at _ _ _ Hl). unfold lx.
    destruct Hh as [[h [x [Hs [Hsh Ho]]]]|[o [gid [code [ph [r [ok [c0 [Hp Ew]]]]]]]]].
    - pose proof (cnt_ge (hx cf) _ _ _ Hs) as G. unfold hx at 1 in G. rewrite Ho, Hc, andb_false_r in G. cbn in G. lia.
    - rewrite Hp. cbn [pcx]. unfold gmode. rewrite Ew, Hc, andb_false_r. cbn. lia. }
  split; [exact Hx|]. apply (excl_invariant_l cf progs s t u HR Hx Hne).
Qed.

(* ================================================================== *)
(* C20 (wrapper part): throwing user code                                *)
(* User code = the modify / read functor and WPay's copy construction / assignment (MCall steps);      *)
(* the throw plan is part of cf, so every theorem above already holds for every throw plan.            *)
(* ================================================================== *)
(* the throwing invocation itself: nothing changes but the invocation counter; a whole-object operation
   goes to the destructor of its guard (the only lock object in scope) with the exception pending *)
Lemma wr_throw_step cf t c g pr sl fr fid snap rest ph r ok :
  existsb (Nat.eqb (calls g)) (throws cf) = true ->
  tstep0 cf t c g (Loc pr (Run fr (MCall fid snap :: rest) ph r ok) sl) =
  Some (set_calls g (S (calls g)),
        Loc pr (match fr with FGuard o gid => GRel o gid 0 true | FUse _ => Idle end) sl,
        [E K_CALL 0 fid; E K_THROW 0 (Z.of_nat (calls g))] ++
        match fr with FGuard _ _ => [] | FUse _ => [catch_ev] end).
Proof.
  intros Ht. unfold tstep0. cbn [at_ slots prog]. unfold exec_mi. rewrite Ht. cbn [m_thrown m_g m_ev].
  destruct fr; reflexivity.
Qed.
Lemma wr_throw_payload_untouched g n :
  val (set_calls g n) = val g /\ dirty (set_calls g n) = dirty g /\ readers (set_calls g n) = readers g /\
  owrites (set_calls g n) = owrites g /\ incrs (set_calls g n) = incrs g /\
  owner (set_calls g n) = owner g /\ sharers (set_calls g n) = sharers g.
Proof. repeat split. Qed.

Lemma acquire_not_catch am sm t c g g' ok e : acquire am sm t c g = Some (g', ok, e) -> e <> catch_ev.
Proof.
  unfold acquire. destruct am; destruct (obtainable sm g); try destruct (Nat.eqb c 2); cbn; intros H; inversion H; subst;
    destruct sm; intros E0; inversion E0.
Qed.
Lemma release_ev sm t i g g' e : release sm t i g = (g', e) -> e = E (k_rel sm) O_MTX 0.
Proof. unfold release. intros H; inversion H; reflexivity. Qed.
Lemma exec_mi_not_catch cf t i ph r ok g : ~ In catch_ev (m_ev (exec_mi cf t i ph r ok g)).
Proof.
  unfold exec_mi, rd_begin, rd_end, wr_begin, wr_end. intros Hc.
  destruct i as [fid snap| |tg s0| |e d]; [| destruct ph | destruct tg; destruct ph | destruct ph as [|[|[|ph]]] | destruct ph];
    cbn in Hc;
    repeat match type of Hc with
           | context [if ?x then _ else _] => destruct x; cbn in Hc
           | context [match ?x with _ => _ end] => destruct x; cbn in Hc
           end;
    repeat (destruct Hc as [Hc|Hc]; try (inversion Hc; fail)); auto.
Qed.

(* K_CATCH is emitted only by the destructor step of a guard with an exception pending
   (and by the - unreachable - throwing call of an access through a handle) *)
Lemma catch_only_from cf t c g l g' l' es : tstep0 cf t c g l = Some (g', l', es) -> In catch_ev es ->
  (exists o gid rv, at_ l = GRel o gid rv true) \/ (exists a code ph r ok, at_ l = Run (FUse a) code ph r ok).
Proof.
  intros Hs Hc. destruct l as [pr p sl]. destruct p; cbn [at_]; try (right; repeat eexists; fail).
  all: try (exfalso; step_cases Hs;
            repeat match goal with
            | H : acquire _ _ _ _ _ = Some _ |- _ => apply acquire_not_catch in H
            | H : release _ _ _ _ = _ |- _ => apply release_ev in H; subst
            end;
            cbn [In] in Hc; repeat (destruct Hc as [Hc|Hc]); try contradiction; try congruence;
            try (inversion Hc; fail); try (destruct (_ && _); inversion Hc; fail); fail).
  - (* Run *) destruct fr as [o gid|a]; [exfalso|right; repeat eexists].
    step_cases Hs; try (eapply exec_mi_not_catch; eauto; fail).
  - (* GRel *) destruct exn; [left; eauto|exfalso].
    step_cases Hs. match goal with H : release _ _ _ _ = _ |- _ => apply release_ev in H; subst end.
    destruct (_ && shcap cf); cbn in Hc; repeat (destruct Hc as [Hc|Hc]; try (inversion Hc; fail)); auto.
Qed.

(* the step that ends an operation with K_CATCH is the destructor of the operation's guard: it releases
   the mutex (one unlock event, the guard's acquisition number goes to the release log) and leaves the
   thread at top level owning nothing but what its live handles own *)
Lemma wr_exn_no_lock_left cf progs s t c l g' l' es :
  R cf progs s -> nth_error (thr s) t = Some l -> tstep0 cf t c (gl s) l = Some (g', l', es) -> In catch_ev es ->
  at_ l' = Idle /\ slots l' = slots l /\
  lx cf l' = cnt (hx cf) (slots l) /\ lsh cf l' = cnt (hs cf) (slots l) /\
  ((exists o gid rv gsh code, at_ l = GRel o gid rv true /\ wop_code cf o = Some (gsh, code) /\
      es = [E (k_rel (gsh && shcap cf)) O_MTX 0; catch_ev] /\ released g' = gid :: released (gl s)) \/
   (exists a code ph r ok, at_ l = Run (FUse a) code ph r ok)).
Proof.
  intros HR Hl Hs Hc.
  destruct (catch_only_from _ _ _ _ _ _ _ _ Hs Hc) as [[o [gid [rv Hp]]]|[a [code [ph [r [ok Hp]]]]]];
    destruct l as [pr p sl]; cbn [at_ slots] in *; subst p.
  - unfold tstep0 in Hs. cbn [at_ slots prog] in Hs.
    destruct (wop_code cf o) as [[gsh code]|] eqn:Ew; [|discriminate].
    destruct (release (gsh && shcap cf) t gid (gl s)) as [g1 e] eqn:Er. inversion Hs; subst.
    pose proof (release_ev _ _ _ _ _ _ Er) as ->. rewrite (release_eq _ _ _ _ _ _ Er).
    unfold lx, lsh. cbn [at_ slots pcx pcs]. repeat split; auto.
    left. exists o, gid, rv, gsh, code. repeat split; auto. destruct (gsh && shcap cf); reflexivity.
  - assert (at_ l' = Idle /\ slots l' = sl) as [E1 E2].
    { unfold tstep0 in Hs. cbn [at_ slots prog] in Hs. destruct code as [|i rest]; [discriminate|].
      destruct (m_thrown _); [inversion Hs; auto|].
      destruct (negb (m_done _)).
      - inversion Hs; subst. exfalso. eapply exec_mi_not_catch; eauto.
      - destruct (match m_rest _ with Some c' => c' | None => rest end); inversion Hs; subst; auto.
        exfalso. eapply exec_mi_not_catch; eauto. }
    destruct l' as [pr' p' sl']. cbn [at_ slots] in *. subst. unfold lx, lsh. cbn [at_ slots pcx pcs].
    repeat split; auto. right. repeat eexists.
Qed.

(* afterwards the wrapper is usable: the new state is reachable (every theorem above applies to it, whatever
   the throw plan - no_deadlock_shape, excl_invariant, ...), and a thread that keeps no handle holds the mutex
   in no mode; if its guard was exclusive the mutex has no exclusive owner *)
Lemma wr_exn_usable cf progs s t c l g' l' es :
  R cf progs s -> nth_error (thr s) t = Some l -> tstep0 cf t c (gl s) l = Some (g', l', es) -> In catch_ev es ->
  R cf progs (step glob loc (tstep cf) s (t, c)) /\
  (~ holds_in_slots cf l -> owner g' <> Some t /\ ~ In t (sharers g')) /\
  (forall o gid rv, at_ l = GRel o gid rv true -> gmode cf o = false -> owner g' = None).
Proof.
  intros HR Hl Hs Hc. pose proof (R_step cf progs s (t, c) HR) as HR'.
  split; [exact HR'|].
  destruct (wr_exn_no_lock_left _ _ _ _ _ _ _ _ _ HR Hl Hs Hc) as [Hidle [_ [Ex [Es _]]]].
  assert (Hst : step glob loc (tstep cf) s (t, c) = Sys g' (upd (thr s) t l')).
  { unfold step, sys_step. rewrite Hl, (tstep_eq0 _ _ _ _ _ _ _ _ Hs) by (rewrite Hidle; reflexivity). reflexivity. }
  rewrite Hst in HR'. destruct (R_inv1 _ _ _ HR') as [_ IX IS _]. cbn [gl thr] in *.
  specialize (IX t). specialize (IS t). rewrite (locof_upd _ _ _ _ _ Hl), Nat.eqb_refl in IX, IS.
  split.
  - intros Hh. unfold holds_in_slots in Hh. split.
    + intros Ho. unfold own1 in IX. rewrite Ho, Nat.eqb_refl in IX. cbn in IX. lia.
    + intros Hin. unfold shc in IS. apply (count_occ_In Nat.eq_dec) in Hin. lia.
  - intros o gid rv Hp Hg. destruct l as [pr p sl]. cbn [at_] in Hp. subst p.
    unfold tstep0 in Hs. cbn [at_ slots prog] in Hs. unfold gmode in Hg.
    destruct (wop_code cf o) as [[gsh code]|] eqn:Ew; [|discriminate]. rewrite Hg in Hs.
    unfold release in Hs. inversion Hs; subst. reflexivity.
Qed.

(* what the payload is after a throw: in every operation body every user-code invocation precedes every
   write of the wrapped object, so an operation that throws has not modified it (exchange: only the private
   temporary was assigned; compare_exchange: `expected` is not updated either) *)
Definition writes_obj (i : mi) : bool := match i with MWrite Obj _ | MIncr => true | _ => false end.
Definition is_call (i : mi) : bool := match i with MCall _ _ => true | _ => false end.
Fixpoint calls_first (code : list mi) : bool :=
  match code with
  | [] => true
  | i :: r => (if writes_obj i then negb (existsb is_call r) else true) && calls_first r
  end.
Lemma wr_exn_calls_first cf o gsh code : wop_code cf o = Some (gsh, code) ->
  calls_first code = true /\
  (forall e d ok, o = Cas e d -> calls_first (cas_branch ok d) = true /\ calls_first (cas_branch_plain ok d) = true).
Proof.
  unfold wop_code. intros H. split.
  - destruct o; try discriminate; destruct (flav cf); destruct (plain cf); cbn in H; inversion H; reflexivity.
  - intros e d ok _. destruct ok; split; reflexivity.
Qed.
(* with the exception pending the payload is not half-written and nobody is inside a modification *)
Lemma wr_exn_state cf progs s t l o gid rv exn : R cf progs s -> safe cf (gl s) ->
  nth_error (thr s) t = Some l -> at_ l = GRel o gid rv exn ->
  dirty (gl s) = false /\ (forall u, wropen (at_ (locof (thr s) u)) = false) /\
  forall c, exists g' l' e, tstep0 cf t c (gl s) l = Some (g', l', [e; if exn then catch_ev else ret_ev rv]) /\
                            val g' = val (gl s) /\ dirty g' = false /\ at_ l' = Idle.
Proof.
  intros HR Hs Hl Hp. destruct (R_inv _ _ _ HR) as [H1 H2].
  destruct (I_ok _ _ _ H1 _ _ Hl) as [_ Hpc]. rewrite Hp in Hpc.
  assert (Hlk : (1 <= lx cf (locof (thr s) t) + lsh cf (locof (thr s) t))%nat).
  { rewrite (locof_at _ _ _ Hl). unfold lx, lsh. rewrite Hp. cbn [pcx pcs]. destruct (gmode cf o); cbn; lia. }
  assert (Hd : dirty (gl s) = false).
  { apply (covered_clean cf _ _ t H1 H2 Hs Hlk). rewrite (locof_at _ _ _ Hl), Hp. reflexivity. }
  split; [exact Hd|]. split.
  - intros u. destruct (wropen (at_ (locof (thr s) u))) eqn:E; [|reflexivity]. exfalso.
    destruct (wropen_run _ E) as [fr [i [rest [ph [r [ok [Hq Hro]]]]]]].
    assert (u <> t) as Hne by (intros ->; rewrite (locof_at _ _ _ Hl), Hp in Hq; discriminate).
    destruct (I_cov _ _ _ H2 Hs u _ _ _ _ _ Hq) as [Hx|[_ Hn]]; [|cbn in Hn; rewrite Hro in Hn; discriminate].
    destruct (excl_locks cf _ _ u t H1 Hne ltac:(lia)). lia.
  - intros c. destruct l as [pr p sl]. cbn [at_] in Hp. subst p. unfold tstep0. cbn [at_ slots prog].
    destruct (wop_code cf o) as [[gsh code]|] eqn:Ew; [|congruence].
    unfold release. eexists _, _, _. split; [reflexivity|]. destruct (gsh && shcap cf); cbn; auto.
Qed.

(* ================================================================== *)
(* The step-level facts for both payload kinds (tstep)                   *)
(* ================================================================== *)
Lemma try_null_iff_t cf t c g l g' l' es h am sh :
  at_ l = HAcq h am sh -> tstep cf t c g l = Some (g', l', es) ->
  exists new, hsh new = sh /\ hnn new = hown new /\ hown new = obtainable (sh && shcap cf) g /\
    ((at_ l' = HRelOld h new /\ slots l' = slots l) \/
     (at_ l' = Idle /\ slots l' = upd (slots l) h (Some new) /\ In (ret_ev (b2z (hnn new))) es)).
Proof.
  intros Hp Hs. destruct (tstep_inv _ _ _ _ _ _ Hs) as [g1 [l1 [es1 [E0 [Hn _]]]]].
  destruct (try_null_iff_l _ _ _ _ _ _ _ _ _ _ _ Hp E0) as [new [A [B [C D]]]].
  assert (silent_pc (at_ l1) = false) as Hsil by (destruct D as [[-> _]|[-> _]]; reflexivity).
  injection (Hn (or_intror Hsil)) as -> -> ->. exists new. auto.
Qed.
Lemma timed_never_stuck_t cf t g pr sl h am sh : am <> ABlock ->
  exists r, tstep cf t 2 g (Loc pr (HAcq h am sh) sl) = Some r.
Proof. intros H. destruct (timed_never_stuck_l cf t g pr sl h am sh H) as [r Hr]. eapply tstep_some; eauto. Qed.
Lemma try_always_enabled_t cf t c g pr sl h sh :
  exists r, tstep cf t c g (Loc pr (HAcq h ATry sh) sl) = Some r.
Proof. destruct (try_always_enabled_l cf t c g pr sl h sh) as [r Hr]. eapply tstep_some; eauto. Qed.
Lemma unlock_nulls_t cf t c g l g' l' es h :
  (at_ l = Idle /\ exists pr, prog l = Unlock h :: pr) \/ at_ l = HRel (RUnlock h) ->
  tstep cf t c g l = Some (g', l', es) -> In (ret_ev 0) es ->
  exists x, slot (slots l') h = Some x /\ hnn x = false /\ hown x = false.
Proof.
  intros Hp Hs Hr. destruct (tstep_inv _ _ _ _ _ _ Hs) as [g1 [l1 [es1 [E0 [Hn _]]]]].
  assert (silent_pc (at_ l1) = false) as Hsil.
  { destruct l as [pr p sl]. cbn [at_ prog] in Hp. destruct Hp as [[-> [pr' ->]]| ->];
      unfold tstep0 in E0; cbn [at_ slots prog rel_slot] in E0.
    - destruct (slot sl h) as [x|]; [destruct (hown x)|]; inversion E0; reflexivity.
    - destruct (slot sl h) as [x|]; [|discriminate]. destruct (release _ _ _ _). inversion E0; reflexivity. }
  injection (Hn (or_intror Hsil)) as -> -> ->. eapply unlock_nulls_l; eauto.
Qed.
Lemma disabled_acquire_t cf t c g pr sl o h am sh : locking cf = false -> noown sl ->
  acq_of cf o = Some (h, am, sh) -> (h < NSLOTS)%nat ->
  tstep cf t c g (Loc (o :: pr) Idle sl) =
  Some (g, Loc pr Idle (upd sl h (Some (H sh true false 0))), [inv_ev o; ret_ev 1]).
Proof.
  intros H1 H2 H3 H4. apply tstep_eq0; [eapply disabled_acquire_l; eassumption|reflexivity].
Qed.
Lemma readers_share_handle_t cf t c g pr sl h am : shcap cf = true -> owner g = None ->
  exists r, tstep cf t c g (Loc pr (HAcq h am true) sl) = Some r.
Proof. intros A B. destruct (readers_share_handle_l cf t c g pr sl h am A B) as [r Hr]. eapply tstep_some; eauto. Qed.
Lemma readers_share_guard_t cf t c g pr sl o code : shcap cf = true -> owner g = None ->
  wop_code cf o = Some (true, code) -> exists r, tstep cf t c g (Loc pr (GAcq o) sl) = Some r.
Proof. intros A B C. destruct (readers_share_guard_l cf t c g pr sl o code A B C) as [r Hr]. eapply tstep_some; eauto. Qed.
(* the guard's destructor and the throwing call leave the thread at a pc that is not inside invisible accesses *)
Lemma wr_throw_step_t cf t c g pr sl fr fid snap rest ph r ok :
  existsb (Nat.eqb (calls g)) (throws cf) = true ->
  tstep cf t c g (Loc pr (Run fr (MCall fid snap :: rest) ph r ok) sl) =
  Some (set_calls g (S (calls g)),
        Loc pr (match fr with FGuard o gid => GRel o gid 0 true | FUse _ => Idle end) sl,
        [E K_CALL 0 fid; E K_THROW 0 (Z.of_nat (calls g))] ++
        match fr with FGuard _ _ => [] | FUse _ => [catch_ev] end).
Proof. intros H. apply tstep_eq0; [apply wr_throw_step; exact H|destruct fr; reflexivity]. Qed.

(* ================================================================== *)
(* C01: termination in existence form (Common/Progress.v)                 *)
(* ================================================================== *)
From GV Require Import Progress.

(* remaining phases of an instruction / weight of a body: every step of a body lowers it *)
Definition rem_mi (i : mi) (ph : nat) : nat :=
  match i with
  | MCall _ _ => 1
  | MRead | MWrite _ _ => match ph with O => 2 | _ => 1 end
  | MIncr => match ph with 0 => 4 | 1 => 3 | 2 => 2 | _ => 1 end
  | MReadE _ _ => match ph with O => 8 | _ => 7 end     (* its own phases + the longest compare_exchange branch *)
  end%nat.
Fixpoint wcode (code : list mi) : nat :=
  match code with [] => 0 | i :: r => rem_mi i 0 + wcode r end%nat.
Definition wpc (p : pc) : nat :=
  match p with
  | Idle => 0
  | HAcq _ _ _ => 2
  | HRelOld _ _ | HRel _ | GRel _ _ _ _ => 1
  | GAcq _ => 12
  | Run _ [] _ _ _ => 1
  | Run _ (i :: rest) ph _ _ => rem_mi i ph + wcode rest + 1
  end%nat.
Definition wloc (l : loc) : nat := (14 * length (prog l) + wpc (at_ l))%nat.
Definition mu (s : sysW) : nat := list_sum (map wloc (thr s)).
Definition any_choice (c : nat) : bool := true.   (* no choice is a retry: every enabled step is work *)

Lemma wop_code_weight cf o gsh code : wop_code cf o = Some (gsh, code) -> (wcode code <= 10)%nat.
Proof.
  unfold wop_code. destruct o; try discriminate; destruct (flav cf); destruct (plain cf); cbn; intros H; inversion H; cbn; lia.
Qed.
Lemma exec_mi_weight cf t i ph r ok g rest :
  (m_done (exec_mi cf t i ph r ok g) = false -> (rem_mi i (S ph) < rem_mi i ph)%nat) /\
  (1 <= rem_mi i ph)%nat /\
  (m_done (exec_mi cf t i ph r ok g) = true ->
   (wcode (match m_rest (exec_mi cf t i ph r ok g) with Some c' => c' | None => rest end) + 1 <= rem_mi i ph + wcode rest)%nat).
Proof.
  unfold exec_mi, rd_begin, rd_end, wr_begin, wr_end.
  destruct i as [fid snap| |[|b] s| |e d];
    [| destruct ph | destruct ph | destruct ph | destruct ph as [|[|[|ph]]] | destruct ph]; cbn;
    try (destruct (existsb _ _); cbn); repeat split; intros; try discriminate; try lia.
  unfold cas_branch, cas_branch_plain. destruct (plain cf); destruct (r =? e); cbn; lia.
Qed.

Lemma wloc_step0 cf t c g l g' l' es : tstep0 cf t c g l = Some (g', l', es) -> (wloc l' < wloc l)%nat.
Proof.
  intros Hs. destruct l as [pr p sl]. unfold wloc.
  destruct p.
  - (* Idle *) destruct pr as [|o rest]; [discriminate|].
    step_cases Hs; cbn [prog at_ length wpc]; try lia.
    all: try (unfold use_code; destruct a; cbn; lia).
  - step_cases Hs; cbn [prog at_ length wpc]; lia.
  - step_cases Hs; cbn [prog at_ length wpc]; lia.
  - step_cases Hs; cbn [prog at_ length wpc]; lia.
  - step_cases Hs; cbn [prog at_ length wpc].
    pose proof (wop_code_weight _ _ _ _ Heqo0) as Hw. destruct l as [|i rest]; cbn [wcode] in *; lia.
  - destruct code as [|i rest]; [discriminate|]. unfold tstep0 in Hs. cbn [at_ slots prog] in Hs.
    destruct (exec_mi_weight cf t i ph r ok g rest) as [Hnd [H1 Hd]].
    destruct (m_thrown _); [destruct fr; inversion Hs; subst; cbn [prog at_ wpc]; lia|].
    destruct (m_done _); cbn [negb] in Hs.
    + specialize (Hd eq_refl).
      destruct (match m_rest _ with Some c' => c' | None => rest end) as [|x y]; destruct fr; inversion Hs; subst;
        cbn [prog at_ wpc wcode] in *; lia.
    + specialize (Hnd eq_refl). inversion Hs; subst. cbn [prog at_ wpc]. lia.
  - step_cases Hs; cbn [prog at_ length wpc]; lia.
Qed.
Lemma settle_weight cf t fuel : forall g l es g2 l2 es2, settle cf t fuel g l es = (g2, l2, es2) -> (wloc l2 <= wloc l)%nat.
Proof.
  induction fuel as [|f IH]; intros g l es g2 l2 es2 Hs; cbn [settle] in Hs; [inversion Hs; lia|].
  destruct (silent_pc (at_ l)); [|inversion Hs; lia].
  destruct (tstep0 cf t 0 g l) as [[[g' l'] es']|] eqn:E0; [|inversion Hs; lia].
  pose proof (wloc_step0 _ _ _ _ _ _ _ _ E0). pose proof (IH _ _ _ _ _ _ Hs). lia.
Qed.
Lemma wloc_step cf t c g l g' l' es : tstep cf t c g l = Some (g', l', es) -> (wloc l' < wloc l)%nat.
Proof.
  intros Hs. destruct (tstep_inv _ _ _ _ _ _ Hs) as [g1 [l1 [es1 [E0 [Hn Hp]]]]].
  pose proof (wloc_step0 _ _ _ _ _ _ _ _ E0) as H0.
  destruct (plain cf) eqn:Ep.
  - specialize (Hp eq_refl). symmetry in Hp. pose proof (settle_weight _ _ _ _ _ _ _ _ _ Hp). lia.
  - injection (Hn (or_introl eq_refl)) as -> -> ->. exact H0.
Qed.

Lemma mu_dec cf (s : sysW) t c : enabledW cf s t c -> (mu (step glob loc (tstep cf) s (t, c)) < mu s)%nat.
Proof.
  intros [l [[[g' l'] es] [Hl Hs]]]. unfold step, sys_step. rewrite Hl, Hs. cbn [fst]. unfold mu. cbn [thr].
  apply (sum_step_dec wloc wloc (thr s) t l l' Hl); [intros; lia|]. eapply wloc_step; eauto.
Qed.

(* the choice matters only as "time-out or not" *)
Lemma tstep0_choice cf t c g l : c <> 2%nat -> tstep0 cf t c g l = tstep0 cf t 0 g l.
Proof.
  intros Hc. assert (Ha : forall am sm, acquire am sm t c g = acquire am sm t 0 g).
  { intros am sm. unfold acquire. destruct (Nat.eqb_spec c 2); [contradiction|reflexivity]. }
  unfold tstep0. destruct (at_ l); try reflexivity; rewrite ?Ha; try reflexivity.
Qed.
Lemma tstep_choice cf t c g l : c <> 2%nat -> tstep cf t c g l = tstep cf t 0 g l.
Proof. intros Hc. unfold tstep. rewrite (tstep0_choice _ _ _ _ _ Hc). reflexivity. Qed.

Lemma settled_quiescent cf (s : sysW) : settled glob loc (tstep cf) any_choice s -> quiescentW cf s.
Proof. intros H t c _. apply H. reflexivity. Qed.

Lemma pick_move cf (s : sysW) :
  (exists t c, any_choice c = true /\ enabledW cf s t c) \/ settled glob loc (tstep cf) any_choice s.
Proof.
  destruct (enabled_choice_dec glob loc (tstep cf) s 0) as [[t He]|H0]; [left; exists t, 0%nat; split; [reflexivity|exact He]|].
  destruct (enabled_choice_dec glob loc (tstep cf) s 2) as [[t He]|H2]; [left; exists t, 2%nat; split; [reflexivity|exact He]|].
  right. intros t c _ [l [r [Hl Hs]]]. destruct (Nat.eq_dec c 2) as [->|Hne].
  - apply (H2 t). exists l, r. auto.
  - apply (H0 t). exists l, r. split; [exact Hl|]. rewrite <- Hs. symmetry. apply tstep_choice. exact Hne.
Qed.

Definition Ptrue (g : glob) (ls : list loc) : Prop := True.

(* from every state a state in which nothing can move (under any choice) is reached by a schedule of at most
   mu(s) steps; every enabled step lowers mu, so every schedule makes at most mu(s) moves *)
Theorem wr_eventually_settles cf progs s : R cf progs s ->
  exists sc, sched_ok any_choice sc /\ (length sc <= mu s)%nat /\
             quiescent glob loc (tstep cf) (run glob loc (tstep cf) s sc).
Proof.
  intros _.
  destruct (settles glob loc (tstep cf) mu Ptrue (fun _ _ _ _ _ _ _ _ _ _ _ => I) any_choice
              (fun s0 t c _ _ He => mu_dec cf s0 t c He) (pick_move cf) s I) as [sc [Hok [Hlen Hset]]].
  exists sc. repeat split; auto. apply settled_quiescent. exact Hset.
Qed.
Theorem wr_bounded_work cf (s : sysW) sc : (moves glob loc (tstep cf) s sc <= mu s)%nat.
Proof.
  apply (moves_le_mu glob loc (tstep cf) mu Ptrue (fun _ _ _ _ _ _ _ _ _ _ _ => I) any_choice
           (fun s0 t c _ _ He => mu_dec cf s0 t c He) s sc I).
  unfold sched_ok. induction sc as [|tc r IH]; [reflexivity|exact IH].
Qed.

(* well-formed clients (wf_progs: no blocking acquisition while a handle of the thread may own a lock, every
   handle released before its thread's program ends) always finish: some schedule of at most mu(s) steps leads
   to a state in which every program has run to completion *)
Theorem wr_eventually_finishes cf progs s : wf_progs cf progs = true -> R cf progs s ->
  exists sc, sched_ok any_choice sc /\ (length sc <= mu s)%nat /\
             all_fin glob loc fin (run glob loc (tstep cf) s sc) = true.
Proof.
  intros Hwf HR. destruct (wr_eventually_settles cf progs s HR) as [sc [Hok [Hlen HQ]]].
  exists sc. repeat split; auto.
  assert (HR' : R cf progs (run glob loc (tstep cf) s sc)).
  { destruct HR as [sc0 ->]. exists (sc0 ++ sc). symmetry. apply run_app. }
  apply (no_deadlock_l cf progs _ HR' HQ). apply (wf_no_nesting_l cf progs _ Hwf HR').
Qed.
