(* C15 on the Wrapper model: the whole-object operations as one atomic register.
   The linearization log is a history variable: the model (Model/WrapperModel.v) is left untouched and is run
   in lock step with a log to which the designated step of each operation appends one entry (ltstep below);
   the projection of a logged run is a run of the model and every run of the model has a logged run. *)
From Coq Require Import List Arith ZArith Lia Bool.
Import ListNotations.
From GV Require Import Sched Events WrapperModel WrapperProofs.
Local Open Scope Z_scope.

(* ---------- the sequential specification ---------- *)
Inductive regop := RLoad | RStore (v : Z) | RXchg (v : Z) | RCas (e d : Z).
Inductive ret := ROk | RVal (v : Z) | RCasRes (success : bool) (expected_out : Z).
Definition reg_apply (x : Z) (o : regop) : Z * ret :=
  match o with
  | RLoad => (x, RVal x)
  | RStore v => (v, ROk)
  | RXchg v => (v, RVal x)
  | RCas e d => if x =? e then (d, RCasRes true e) else (x, RCasRes false x)
  end.
(* how the driver / model report a result in K_RET *)
Definition ret_code (r : ret) : Z :=
  match r with ROk => 0 | RVal v => v | RCasRes s x => 2 * x + (if s then 1 else 0) end.
Definition regop_of (o : op) : option regop :=
  match o with
  | Load | Cast => Some RLoad
  | Store v | Assign v => Some (RStore v)
  | Exchange v => Some (RXchg v)
  | Cas e d => Some (RCas e d)
  | _ => None
  end.

(* le_gid: the acquisition number of the guard under which the entry was logged (0: through a handle) *)
Record lentry := LE { le_t : nat; le_gid : nat; le_op : regop; le_ret : ret }.

(* the entry appended by the step of thread t taken from (g, l), if that step is a linearization point:
   the end of the read window of load / operator T / a failing compare_exchange's second read (reads through a
   handle or inside a read functor are not register operations and leave the register as it is: not logged), and
   the end of every write window of the wrapped object (store, operator=, exchange, a succeeding
   compare_exchange; a write through a handle is logged as a store) *)
Definition lin_of (t : nat) (g : glob) (l : loc) : option lentry :=
  match at_ l with
  | Run fr (MRead :: rest) (S _) r ok =>
    match fr with
    | FGuard Load gid | FGuard Cast gid => Some (LE t gid RLoad (RVal (val g)))
    | FGuard (Cas e d) gid =>
      match rest with
      | [MWrite (Priv _) _] => Some (LE t gid (RCas e d) (RCasRes false (val g)))
      | _ => None
      end
    | _ => None
    end
  | Run fr (MWrite Obj s :: rest) (S _) r ok =>
    let x := match s with Const v => v | Reg => r end in
    match fr with
    | FGuard (Exchange _) gid => Some (LE t gid (RXchg x) (RVal r))
    | FGuard (Cas e d) gid => Some (LE t gid (RCas e d) (RCasRes true e))
    | FGuard _ gid => Some (LE t gid (RStore x) ROk)
    | FUse _ => Some (LE t 0 (RStore x) ROk)
    end
  | _ => None
  end.

(* ---------- the model run together with its log ---------- *)
Definition lglob := (glob * list lentry)%type.     (* newest entry first *)
Definition ltstep (cf : config) (t c : nat) (G : lglob) (l : loc) : option (lglob * loc * list ev) :=
  match tstep cf t c (fst G) l with
  | Some (g', l', es) =>
    Some ((g', match lin_of t (fst G) l with Some e => e :: snd G | None => snd G end), l', es)
  | None => None
  end.
Definition linit (cf : config) (progs : list (list op)) : sys lglob loc :=
  Sys (gl (init cf progs), []) (thr (init cf progs)).
Definition RL (cf : config) (progs : list (list op)) (s : sys lglob loc) : Prop :=
  reachable lglob loc (ltstep cf) (linit cf progs) s.
Definition proj (s : sys lglob loc) : sysW := Sys (fst (gl s)) (thr s).
Definition llog (s : sys lglob loc) : list lentry := snd (gl s).

Lemma proj_step cf s tc : proj (step lglob loc (ltstep cf) s tc) = step glob loc (tstep cf) (proj s) tc.
Proof.
  destruct tc as [t c]. unfold step, sys_step, proj, ltstep. cbn [gl thr].
  destruct (nth_error (thr s) t) as [l|]; [|reflexivity].
  destruct (tstep cf t c (fst (gl s)) l) as [[[g' l'] es]|]; reflexivity.
Qed.
Lemma proj_run cf sched : forall s, proj (run lglob loc (ltstep cf) s sched) = run glob loc (tstep cf) (proj s) sched.
Proof.
  induction sched as [|tc r IH]; intros s; cbn [run fold_left]; [reflexivity|].
  unfold run in IH. rewrite IH, proj_step. reflexivity.
Qed.
(* the projection of a logged run is a run of the model ... *)
Lemma RL_R cf progs s : RL cf progs s -> R cf progs (proj s).
Proof. intros [sc ->]. exists sc. rewrite proj_run. reflexivity. Qed.
(* ... and every reachable state of the model carries a log *)
Lemma R_RL cf progs s : R cf progs s -> exists sl, RL cf progs sl /\ proj sl = s.
Proof.
  intros [sc ->]. exists (run lglob loc (ltstep cf) (linit cf progs) sc). split; [exists sc; reflexivity|].
  rewrite proj_run. reflexivity.
Qed.

(* ---------- legal sequential runs of the register ---------- *)
Inductive legal (x0 : Z) : list lentry -> Z -> Prop :=
| legal_nil : legal x0 [] x0
| legal_cons e lg x x' : legal x0 lg x -> reg_apply x (le_op e) = (x', le_ret e) -> legal x0 (e :: lg) x'.

Fixpoint head_of (t : nat) (lg : list lentry) : option lentry :=
  match lg with [] => None | e :: r => if Nat.eqb (le_t e) t then Some e else head_of t r end.

(* ---------- what a step does to the payload value ---------- *)
Lemma exec_mi_fields cf t i ph r ok g :
  val (m_g (exec_mi cf t i ph r ok g)) =
    match i, ph with
    | MWrite Obj s, S _ => match s with Const v => v | Reg => r end
    | MIncr, S (S (S _)) => r + 1
    | _, _ => val g
    end /\
  incrs (m_g (exec_mi cf t i ph r ok g)) =
    match i, ph with MIncr, S (S (S _)) => S (incrs g) | _, _ => incrs g end /\
  misuse (m_g (exec_mi cf t i ph r ok g)) = misuse g.
Proof.
  unfold exec_mi, rd_begin, rd_end, wr_begin, wr_end.
  destruct i as [fid snap| |tg s| |e d];
    [| destruct ph | destruct tg; destruct ph | destruct ph as [|[|[|ph]]] | destruct ph]; cbn;
    try (destruct (existsb _ _); cbn); auto.
Qed.
Lemma tstep_glob_run cf t c g pr sl fr i rest ph r ok g' l' es :
  tstep0 cf t c g (Loc pr (Run fr (i :: rest) ph r ok) sl) = Some (g', l', es) ->
  g' = m_g (exec_mi cf t i ph r ok g).
Proof.
  unfold tstep0. cbn [at_ slots prog]. intros Hs.
  destruct (m_thrown _); [destruct fr; inversion Hs; reflexivity|].
  destruct (negb (m_done _)); [inversion Hs; reflexivity|].
  destruct (match m_rest _ with Some c' => c' | None => rest end); destruct fr; inversion Hs; reflexivity.
Qed.
Lemma tstep_val_nonrun cf t c g l g' l' es : tstep0 cf t c g l = Some (g', l', es) ->
  (forall fr code ph r ok, at_ l <> Run fr code ph r ok) ->
  val g' = val g /\ incrs g' = incrs g /\ (misuse g <= misuse g')%nat.
Proof.
  intros Hs Hn. destruct l as [pr p sl]. cbn [at_] in Hn.
  destruct p; try (exfalso; eapply Hn; reflexivity).
  all: step_cases Hs; auto.
  all: try match goal with H : acquire _ _ _ _ _ = Some _ |- _ =>
         destruct (acquire_obj _ _ _ _ _ _ _ _ H) as [[Ev [_ [_ [Ei _]]]] [Em _]]; rewrite Ev, Ei, Em; auto end.
  all: try match goal with H : release _ _ _ _ = _ |- _ =>
         destruct (release_obj _ _ _ _ _ _ H) as [[Ev [_ [_ [Ei _]]]] [Em _]]; rewrite Ev, Ei, Em; auto end.
  all: cbn; auto.
Qed.

(* the value changes only in the step that closes a write window of a thread that writes *)
Lemma tstep_val cf t c g l g' l' es : tstep0 cf t c g l = Some (g', l', es) ->
  val g' = val g \/ exists fr i rest ph r ok, at_ l = Run fr (i :: rest) (S ph) r ok /\ ro_mi i = false.
Proof.
  intros Hs. destruct l as [pr p sl].
  destruct p; try (left; apply (tstep_val_nonrun _ _ _ _ _ _ _ _ Hs); cbn; intros; discriminate).
  destruct code as [|i rest]; [discriminate|].
  pose proof (tstep_glob_run _ _ _ _ _ _ _ _ _ _ _ _ _ _ _ Hs) as ->.
  destruct (exec_mi_fields cf t i ph r ok g) as [Ev _]. rewrite Ev.
  destruct i as [fid snap| |[|b] s| |e d]; auto; destruct ph as [|ph]; auto.
  - right. repeat eexists.
  - destruct ph as [|[|ph]]; auto. right. repeat eexists.
Qed.
Lemma val_change_holder cf g ls t c l g' l' es :
  Inv1 cf g ls -> Inv2 cf g ls -> safe cf g -> nth_error ls t = Some l ->
  tstep0 cf t c g l = Some (g', l', es) -> val g' <> val g -> lx cf l = 1%nat.
Proof.
  intros H1 H2 Hs Hl Hst Hv. destruct (tstep_val _ _ _ _ _ _ _ _ Hst) as [E|[fr [i [rest [ph [r [ok [Hp Hro]]]]]]]]; [congruence|].
  pose proof (I_cov _ _ _ H2 Hs t) as Hc. rewrite (locof_at _ _ _ Hl) in Hc.
  destruct (Hc _ _ _ _ _ Hp) as [Hx|[_ Hn]]; [exact Hx|]. cbn in Hn. rewrite Hro in Hn. discriminate.
Qed.

(* ---------- where each register operation stands in its body, and what its registers hold ---------- *)
Definition X0 v := [MCall FID_ASSIGN true; MWrite (Priv P_XCHG) Reg; MCall FID_ASSIGN false; MWrite Obj (Const v)].
Definition X1 v := [MWrite (Priv P_XCHG) Reg; MCall FID_ASSIGN false; MWrite Obj (Const v)].
Definition X2 v := [MCall FID_ASSIGN false; MWrite Obj (Const v)].
Definition X3 v := [MWrite Obj (Const v)].
Definition CS1 d := [MCall FID_ASSIGN false; MWrite Obj (Const d)].
Definition CS2 d := [MWrite Obj (Const d)].
Definition CF1 := [MCall FID_ASSIGN false; MRead; MWrite (Priv P_EXP) Reg].
Definition CF2 := [MRead; MWrite (Priv P_EXP) Reg].
Definition CF3 := [MWrite (Priv P_EXP) Reg].

Definition shape (g : glob) (t : nat) (lg : list lentry) (l : loc) : Prop :=
  match at_ l with
  | Run (FGuard o gid) code ph r ok =>
    match o with
    | Load | Cast => code = [MCall FID_COPY false; MRead] \/ code = [MRead]
    | Store v | Assign v => code = [MCall FID_ASSIGN false; MWrite Obj (Const v)] \/ code = [MWrite Obj (Const v)]
    | Modify f => code = [MCall f false; MIncr] \/ code = [MIncr]
    | ReadF f => code = [MCall f false; MRead] \/ code = [MRead]
    | Exchange v => code = X0 v \/ ((code = X1 v \/ code = X2 v \/ code = X3 v) /\ r = val g)
    | Cas e d =>
      code = [MRead; MReadE e d] \/
      (code = [MReadE e d] /\ r = val g) \/
      ((code = CS1 d \/ code = CS2 d) /\ r = val g /\ r = e /\ ok = true) \/
      ((code = CF1 \/ code = CF2) /\ val g <> e /\ ok = false) \/
      (code = CF3 /\ ok = false /\ head_of t lg = Some (LE t gid (RCas e d) (RCasRes false r)))
    | _ => True
    end
  | GRel o gid rv false =>
    match regop_of o with
    | Some ro => exists e, head_of t lg = Some e /\ le_gid e = gid /\ le_op e = ro /\ ret_code (le_ret e) = rv
    | None => True
    end
  | _ => True
  end.

Lemma wop_code_regop cf o gsh code : plain cf = false -> wop_code cf o = Some (gsh, code) ->
  match o with
  | Load | Cast => code = [MCall FID_COPY false; MRead]
  | Store v | Assign v => code = [MCall FID_ASSIGN false; MWrite Obj (Const v)]
  | Modify f => code = [MCall f false; MIncr]
  | ReadF f => code = [MCall f false; MRead]
  | Exchange v => code = X0 v /\ gsh = false
  | Cas e d => code = [MRead; MReadE e d] /\ gsh = false
  | _ => True
  end.
Proof.
  unfold wop_code. intros ->. destruct o; auto; destruct (flav cf); cbn; intros H; inversion H; auto.
Qed.

Definition newlog (t : nat) (g : glob) (l : loc) (lg : list lentry) : list lentry :=
  match lin_of t g l with Some e => e :: lg | None => lg end.

Lemma run_next cf t c g pr sl o gid i rest ph r ok g' l' es :
  tstep0 cf t c g (Loc pr (Run (FGuard o gid) (i :: rest) ph r ok) sl) = Some (g', l', es) ->
  at_ l' =
  (if m_thrown (exec_mi cf t i ph r ok g) then GRel o gid 0 true
   else if negb (m_done (exec_mi cf t i ph r ok g))
        then Run (FGuard o gid) (i :: rest) (S ph) (m_r (exec_mi cf t i ph r ok g)) (m_ok (exec_mi cf t i ph r ok g))
        else match (match m_rest (exec_mi cf t i ph r ok g) with Some c' => c' | None => rest end) with
             | [] => GRel o gid (wop_ret o (m_r (exec_mi cf t i ph r ok g)) (m_ok (exec_mi cf t i ph r ok g))) false
             | x :: y => Run (FGuard o gid) (x :: y) 0 (m_r (exec_mi cf t i ph r ok g)) (m_ok (exec_mi cf t i ph r ok g))
             end).
Proof.
  unfold tstep0. cbn [at_ slots prog]. intros Hs.
  destruct (m_thrown _); [inversion Hs; reflexivity|].
  destruct (negb (m_done _)); [inversion Hs; reflexivity|].
  destruct (match m_rest _ with Some c' => c' | None => rest end); inversion Hs; reflexivity.
Qed.

(* the thread that steps *)
Lemma shape_own_step cf t c g l g' l' es lg :
  plain cf = false -> locok cf l -> shape g t lg l -> tstep0 cf t c g l = Some (g', l', es) -> shape g' t (newlog t g l lg) l'.
Proof.
  intros Hpl [Hlen Hpc] Hsh Hs. destruct l as [pr p sl]. unfold shape, newlog, lin_of in *. cbn [at_ slots] in *.
  destruct p.
  1-4: step_cases Hs; cbn [at_]; exact I.
  - (* the guard is taken: the body starts *)
    step_cases Hs. cbn [at_]. pose proof (wop_code_regop _ _ _ _ Hpl Heqo0) as Hc.
    destruct o; auto; try (left; exact Hc); left; apply Hc.
  - (* one phase of the body *)
    destruct code as [|i rest]; [discriminate|].
    destruct fr as [o gid|a].
    2: { (* through a handle: not a register operation of the wrapper *)
      unfold tstep0 in Hs. cbn [at_ slots prog] in Hs.
      destruct (m_thrown _); [inversion Hs; exact I|].
      destruct (negb (m_done _)); [inversion Hs; exact I|].
      destruct (match m_rest _ with Some c' => c' | None => rest end); inversion Hs; exact I. }
    destruct o; try (
      unfold tstep0 in Hs; cbn [at_ slots prog] in Hs;
      destruct (m_thrown _); [inversion Hs; exact I|];
      destruct (negb (m_done _)); [inversion Hs; exact I|];
      destruct (match m_rest _ with Some c' => c' | None => rest end); inversion Hs; exact I).
    all: cbv beta iota in Hsh; unfold X0, X1, X2, X3, CS1, CS2, CF1, CF2, CF3 in *.
    all: pose proof (tstep_glob_run _ _ _ _ _ _ _ _ _ _ _ _ _ _ _ Hs) as Hg;
         pose proof (run_next _ _ _ _ _ _ _ _ _ _ _ _ _ _ _ _ Hs) as Hp; clear Hs;
         destruct l' as [pr' p' sl']; cbn [at_] in Hp |- *; subst p' g'.
    all: repeat match goal with
         | H : _ \/ _ |- _ => destruct H
         | H : _ /\ _ |- _ => destruct H
         end.
    all: repeat match goal with H : _ :: _ = _ :: _ |- _ => inversion H; clear H; subst end.
    all: unfold exec_mi, rd_begin, rd_end, wr_begin, wr_end, cas_branch; rewrite ?Hpl.
    all: try match goal with |- context [existsb ?f ?l] => destruct (existsb f l) end.
    all: try (destruct ph as [|[|[|ph]]]).
    all: cbn -[Z.mul Z.add]; rewrite ?Nat.eqb_refl.
    all: try exact I.
    all: try match goal with |- context [?a =? ?b] => destruct (Z.eqb_spec a b) end; cbn -[Z.mul Z.add].
    all: try (intuition (reflexivity || congruence || lia); fail).
    all: try (eexists; repeat split; cbn -[Z.mul Z.add]; first [reflexivity | lia]; fail).
    all: try (eexists; split; [eassumption|]; split; [reflexivity|]; split; [reflexivity|]; cbn -[Z.mul Z.add]; lia).
  - (* the guard is released *) step_cases Hs; cbn [at_]; exact I.
Qed.

Lemma lin_of_tid t g l e : lin_of t g l = Some e -> le_t e = t.
Proof.
  unfold lin_of. destruct (at_ l); try discriminate. destruct code as [|[fid snap| |[|b] s| |e0 d] rest]; try discriminate;
    destruct ph; try discriminate.
  - destruct fr as [[] gid|]; try discriminate; try (intros H; inversion H; reflexivity).
    destruct rest as [|[| |[|b] s| |] [|]]; try discriminate; intros H; inversion H; reflexivity.
  - destruct fr as [[] gid|]; intros H; inversion H; reflexivity.
Qed.
Lemma newlog_other t u g l lg : u <> t -> head_of u (newlog t g l lg) = head_of u lg.
Proof.
  intros Hne. unfold newlog. destruct (lin_of t g l) as [e|] eqn:E; [|reflexivity].
  cbn [head_of]. rewrite (lin_of_tid _ _ _ _ E). destruct (Nat.eqb_spec t u); [congruence|reflexivity].
Qed.
Lemma gmode_xc cf o : (match o with Exchange _ | Cas _ _ => True | _ => False end) -> gmode cf o = false.
Proof. unfold gmode, wop_code. destruct o; try tauto; intros _; destruct (has_xc (flav cf)); reflexivity. Qed.

(* the threads that do not step: their registers still hold the current value, because nobody else writes
   while they hold the exclusive guard *)
Lemma shape_other_step cf g ls t c l g' l' es lg u lu :
  Inv1 cf g ls -> Inv2 cf g ls -> safe cf g -> nth_error ls t = Some l ->
  tstep0 cf t c g l = Some (g', l', es) -> u <> t -> nth_error ls u = Some lu ->
  shape g u lg lu -> shape g' u (newlog t g l lg) lu.
Proof.
  intros H1 H2 Hs Hl Hst Hne Hu Hsh. unfold shape in *. rewrite (newlog_other _ _ _ _ _ Hne).
  destruct (Z.eq_dec (val g') (val g)) as [Ev|Ev]; [rewrite Ev; exact Hsh|].
  pose proof (val_change_holder _ _ _ _ _ _ _ _ _ H1 H2 Hs Hl Hst Ev) as Hx.
  rewrite <- (locof_at _ _ _ Hl) in Hx.
  destruct (excl_locks cf g ls t u H1 (not_eq_sym Hne) ltac:(lia)) as [Ex _].
  rewrite (locof_at _ _ _ Hu) in Ex. unfold lx in Ex.
  destruct (at_ lu) as [| | | | |fr code ph r ok|o gid rv exn]; try exact I; [|exact Hsh].
  destruct fr as [o gid|a]; [|exact I].
  destruct o; try exact Hsh; exfalso; cbn [pcx] in Ex; rewrite gmode_xc in Ex by exact I; cbn in Ex; lia.
Qed.

Lemma tstep_mono cf t c g l g' l' es : tstep0 cf t c g l = Some (g', l', es) ->
  (misuse g <= misuse g')%nat /\ (incrs g <= incrs g')%nat.
Proof.
  intros Hs. destruct l as [pr p sl].
  destruct p; try (destruct (tstep_val_nonrun _ _ _ _ _ _ _ _ Hs) as [_ [Ei Em]]; [cbn; intros; discriminate|]; lia).
  destruct code as [|i rest]; [discriminate|].
  pose proof (tstep_glob_run _ _ _ _ _ _ _ _ _ _ _ _ _ _ _ Hs) as ->.
  destruct (exec_mi_fields cf t i ph r ok g) as [_ [Ei Em]]. rewrite Ei, Em. split; [lia|].
  destruct i; try lia. destruct ph as [|[|[|ph]]]; lia.
Qed.

(* the log stays a legal sequential run ending in the current value *)
Lemma legal_step cf g t c l g' l' es lg x0 :
  shape g t lg l -> tstep0 cf t c g l = Some (g', l', es) -> incrs g' = 0%nat ->
  legal x0 lg (val g) -> legal x0 (newlog t g l lg) (val g').
Proof.
  intros Hsh Hs Hi HL. destruct l as [pr p sl]. unfold newlog, lin_of, shape in *. cbn [at_] in *.
  destruct p; try (destruct (tstep_val_nonrun _ _ _ _ _ _ _ _ Hs) as [Ev _]; [cbn; intros; discriminate|]; rewrite Ev; exact HL).
  destruct code as [|i rest]; [discriminate|].
  pose proof (tstep_glob_run _ _ _ _ _ _ _ _ _ _ _ _ _ _ _ Hs) as ->.
  destruct (exec_mi_fields cf t i ph r ok g) as [Ev [Ei _]]. rewrite Ev. rewrite Ei in Hi. clear Hs Ev Ei.
  destruct i as [fid snap| |[|b] s| |e0 d0]; try exact HL.
  - (* MRead *) destruct ph as [|ph]; [exact HL|].
    destruct fr as [o gid|a]; [|exact HL].
    destruct o; try exact HL; try (econstructor; [exact HL|reflexivity]).
    destruct rest as [|[| |[|b] s| |] [|]]; try exact HL.
    econstructor; [exact HL|]. cbn [le_op le_ret reg_apply].
    unfold CF1, CF2, CF3 in Hsh.
    destruct Hsh as [E|[[E _]|[[[E|E] _]|[[[E|E] [Hv _]]|[E _]]]]]; try discriminate.
    destruct (Z.eqb_spec (val g) e); [contradiction|reflexivity].
  - (* MWrite Obj *) destruct ph as [|ph]; [exact HL|].
    destruct fr as [o gid|a]; [|econstructor; [exact HL|reflexivity]].
    destruct o; try (econstructor; [exact HL|reflexivity]).
    + (* exchange *) unfold X0, X1, X2, X3 in Hsh. destruct Hsh as [E|[[E|[E|E]] Hr]]; try discriminate.
      inversion E. subst s rest. rewrite Hr. econstructor; [exact HL|reflexivity].
    + (* compare_exchange, success *) unfold CS1, CS2, CF1, CF2, CF3 in Hsh.
      destruct Hsh as [E|[[E _]|[[[E|E] [Hr [He _]]]|[[[E|E] _]|[E _]]]]]; try discriminate.
      inversion E. subst s rest. econstructor; [exact HL|]. cbn [le_op le_ret reg_apply]. rewrite <- Hr, He, Z.eqb_refl. reflexivity.
  - (* MIncr *) destruct ph as [|[|[|ph]]]; try exact HL. discriminate.
Qed.

(* ---------- the invariant of the logged run ---------- *)
Record InvL (cf : config) (G : lglob) (ls : list loc) : Prop := {
  L_inv : Inv cf (fst G) ls;
  L_shape : safe cf (fst G) -> forall u lu, nth_error ls u = Some lu -> shape (fst G) u (snd G) lu;
  L_legal : safe cf (fst G) -> incrs (fst G) = 0%nat -> legal (init_val cf) (snd G) (val (fst G))
}.

Lemma tstep_instr cf t c g l : plain cf = false -> tstep cf t c g l = tstep0 cf t c g l.
Proof. intros H. unfold tstep. rewrite H. destruct (tstep0 cf t c g l) as [[[? ?] ?]|]; reflexivity. Qed.

Lemma InvL_step cf : plain cf = false -> forall G ls t c l G' l' es,
  InvL cf G ls -> nth_error ls t = Some l -> ltstep cf t c G l = Some (G', l', es) -> InvL cf G' (upd ls t l').
Proof.
  intros Hpl [g lg] ls t c l G' l' es [HI Hsh HL] Hl Hs. unfold ltstep in Hs. cbn [fst snd] in *.
  rewrite (tstep_instr _ _ _ _ _ Hpl) in Hs.
  destruct (tstep0 cf t c g l) as [[[g' l1] es1]|] eqn:Hst; [|discriminate]. inversion Hs; subst; clear Hs.
  fold (newlog t g l lg). cbn [fst snd].
  destruct (tstep_mono _ _ _ _ _ _ _ _ Hst) as [Hm Hi].
  assert (Hsafe : safe cf g' -> safe cf g) by (intros [? ?]; split; [assumption|lia]).
  destruct HI as [H1 H2].
  constructor; cbn [fst snd].
  - eapply Inv_step; eauto. split; assumption.
  - intros Hs' u lu Hu. specialize (Hsh (Hsafe Hs')).
    destruct (nth_upd _ _ _ _ _ Hu) as [[-> [-> _]]|[Hne Hu']].
    + eapply shape_own_step; eauto. eapply I_ok; eauto.
    + eapply shape_other_step; eauto.
  - intros Hs' Hi'. eapply legal_step; eauto. apply HL; [auto|lia].
Qed.

Lemma InvL_init cf progs : InvL cf (gl (linit cf progs)) (thr (linit cf progs)).
Proof.
  unfold linit. cbn [gl thr fst snd]. constructor; cbn [fst snd].
  - split; [apply Inv1_init|apply Inv2_init].
  - intros _ u lu Hu. unfold init in Hu. cbn [thr] in Hu. rewrite nth_error_map in Hu.
    destruct (nth_error progs u); cbn in Hu; inversion Hu; subst. exact I.
  - intros _ _. constructor.
Qed.
Lemma RL_inv cf progs s : plain cf = false -> RL cf progs s -> InvL cf (gl s) (thr s).
Proof. intros Hpl H. eapply reachable_inv; [apply (InvL_step cf Hpl)|apply InvL_init|exact H]. Qed.

Lemma legal_fun x0 lg : forall x y, legal x0 lg x -> legal x0 lg y -> x = y.
Proof.
  induction lg as [|e lg IH]; intros x y Hx Hy; inversion Hx; inversion Hy; subst; [reflexivity|].
  match goal with A : legal x0 lg ?a, B : legal x0 lg ?b |- _ => pose proof (IH _ _ A B); subst end. congruence.
Qed.

(* ---------- C15 ---------- *)
(* the log of every reachable state is a legal sequential run of the register from the initial value, and it
   ends in the current payload value (the value of the last completed write: the payload is updated in the very
   step that logs the write).  Hypotheses: locking enabled / no use of moved-from handles (safe) and no
   completed read-increment-write (modify / incr through a handle are not register operations). *)
Lemma reg_linearizable_l cf progs s : plain cf = false -> RL cf progs s -> safe cf (fst (gl s)) -> incrs (fst (gl s)) = 0%nat ->
  legal (init_val cf) (llog s) (val (fst (gl s))).
Proof. intros Hpl HR. apply (L_legal _ _ _ (RL_inv _ _ _ Hpl HR)). Qed.

(* the logging step applies reg_apply to the payload value current at that step: exchange records the value it
   replaced, compare_exchange succeeds exactly when current = expected and otherwise reports current *)
Lemma reg_seq_refines_l cf progs s t c l g' l' es e :
  plain cf = false -> RL cf progs s -> safe cf (fst (gl s)) -> nth_error (thr s) t = Some l ->
  tstep cf t c (fst (gl s)) l = Some (g', l', es) -> incrs g' = 0%nat -> lin_of t (fst (gl s)) l = Some e ->
  reg_apply (val (fst (gl s))) (le_op e) = (val g', le_ret e).
Proof.
  intros Hpl HR Hs Hl Hst Hi He. rewrite (tstep_instr _ _ _ _ _ Hpl) in Hst. destruct (RL_inv _ _ _ Hpl HR) as [_ Hsh HLg].
  destruct (tstep_mono _ _ _ _ _ _ _ _ Hst) as [_ Hi0].
  assert (HL0 : legal (init_val cf) (snd (gl s)) (val (fst (gl s)))) by (apply HLg; [exact Hs|lia]).
  pose proof (legal_step cf _ t c l g' l' es _ _ (Hsh Hs t l Hl) Hst Hi HL0) as HL.
  unfold newlog in HL. rewrite He in HL.
  inversion HL as [|e0 lg0 x x' Hx Hr]; subst. rewrite (legal_fun _ _ _ _ HL0 Hx). exact Hr.
Qed.

(* every completed register operation returns the value its own log entry records *)
Lemma reg_returns_logged_l cf progs s t l o gid rv ro :
  plain cf = false -> RL cf progs s -> safe cf (fst (gl s)) -> nth_error (thr s) t = Some l ->
  at_ l = GRel o gid rv false -> regop_of o = Some ro ->
  (exists e, head_of t (llog s) = Some e /\ le_gid e = gid /\ le_op e = ro /\ ret_code (le_ret e) = rv) /\
  forall c, exists g' l' e0, tstep cf t c (fst (gl s)) l = Some (g', l', [e0; ret_ev rv]) /\ at_ l' = Idle.
Proof.
  intros Hpl HR Hs Hl Hp Hro. destruct (RL_inv _ _ _ Hpl HR) as [[H1 _] Hsh _].
  pose proof (Hsh Hs t l Hl) as S0. unfold shape in S0. rewrite Hp, Hro in S0. split; [exact S0|].
  intros c. destruct (I_ok _ _ _ H1 _ _ Hl) as [_ Hpc]. rewrite Hp in Hpc.
  destruct l as [pr p sl]. cbn [at_] in Hp. subst p. rewrite (tstep_instr _ _ _ _ _ Hpl). unfold tstep0. cbn [at_ slots prog].
  destruct (wop_code cf o) as [[gsh code]|]; [|congruence]. unfold release. eexists _, _, _. split; reflexivity.
Qed.

(* the linearization point lies inside the call: the logging step is a step of the operation's body (pc Run:
   after the invocation step and the acquisition of the guard, before the release / return step), it is taken
   by the logging thread, and that thread holds the mutex *)
Lemma reg_lin_point_inside_call_l cf progs s t l e :
  plain cf = false -> RL cf progs s -> nth_error (thr s) t = Some l -> lin_of t (fst (gl s)) l = Some e ->
  le_t e = t /\ (exists fr code ph r ok, at_ l = Run fr code ph r ok) /\
  (safe cf (fst (gl s)) -> (1 <= lx cf l + lsh cf l)%nat).
Proof.
  intros Hpl HR Hl He. split; [eapply lin_of_tid; eauto|].
  assert (exists fr code ph r ok, at_ l = Run fr code ph r ok) as Hrun.
  { unfold lin_of in He. destruct (at_ l); try discriminate. repeat eexists. }
  split; [exact Hrun|]. intros Hs. destruct Hrun as [fr [code [ph [r [ok Hp]]]]].
  destruct (RL_inv _ _ _ Hpl HR) as [[_ H2] _ _].
  pose proof (I_cov _ _ _ H2 Hs t) as Hc. rewrite (locof_at _ _ _ Hl) in Hc.
  destruct (Hc _ _ _ _ _ Hp) as [?|[? _]]; lia.
Qed.
(* ... and the pcs after it (the guard's destructor, compare_exchange's write-back of `expected`) log nothing *)
Lemma reg_no_second_entry t g l : 
  (forall fr code ph r ok, at_ l <> Run fr code ph r ok) \/
  (exists fr b s rest ph r ok, at_ l = Run fr (MWrite (Priv b) s :: rest) ph r ok) -> lin_of t g l = None.
Proof.
  unfold lin_of. intros [Hn|[fr [b [s [rest [ph [r [ok ->]]]]]]]]; [|reflexivity].
  destruct (at_ l); try reflexivity. exfalso. eapply Hn; reflexivity.
Qed.

(* a load never returns a dirty value: when a read window of the wrapped object is about to close, no write
   window is open and the value is not half-written *)
Lemma reg_no_torn_load_l cf progs s t l : R cf progs s -> safe cf (gl s) ->
  nth_error (thr s) t = Some l -> rdopen (at_ l) = 1%nat ->
  dirty (gl s) = false /\ forall u, wropen (at_ (locof (thr s) u)) = false.
Proof.
  intros HR Hs Hl Hr. destruct (R_inv _ _ _ HR) as [H1 H2].
  destruct (rdopen_run _ Hr) as [fr [code [ph [r [ok Hp]]]]].
  pose proof (I_cov _ _ _ H2 Hs t) as Hc. rewrite (locof_at _ _ _ Hl) in Hc.
  assert (Hlk : (1 <= lx cf (locof (thr s) t) + lsh cf (locof (thr s) t))%nat).
  { rewrite (locof_at _ _ _ Hl). destruct (Hc _ _ _ _ _ Hp) as [?|[? _]]; lia. }
  assert (Hw : wropen (at_ (locof (thr s) t)) = false).
  { rewrite (locof_at _ _ _ Hl). destruct (at_ l); try reflexivity.
    destruct code0 as [|[| |[]| |] ?]; try reflexivity; cbn in Hr; try discriminate.
    destruct ph0 as [|[|[|?]]]; try reflexivity; discriminate. }
  split; [apply (covered_clean cf _ _ t H1 H2 Hs Hlk Hw)|].
  intros u. destruct (Nat.eq_dec u t) as [->|Hne]; [exact Hw|].
  destruct (wropen (at_ (locof (thr s) u))) eqn:E; [|reflexivity]. exfalso.
  destruct (wropen_run _ E) as [fr' [i [rest [ph' [r' [ok' [Hq Hro]]]]]]].
  destruct (I_cov _ _ _ H2 Hs u _ _ _ _ _ Hq) as [Hx|[_ Hn]]; [|cbn in Hn; rewrite Hro in Hn; discriminate].
  destruct (excl_locks cf _ _ u t H1 Hne ltac:(lia)). lia.
Qed.
