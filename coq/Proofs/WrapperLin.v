(* C15 on the Wrapper model: the whole-object operations as one atomic register.
   The linearization log is a history variable: the model (Model/WrapperModel.v) is left untouched and is run
   in lock step with a log to which the designated step of each operation appends one entry (ltstep below);
   the projection of a logged run is a run of the model and every run of the model has a logged run. *)
From Coq Require Import List Arith ZArith Lia Bool.
Import ListNotations.
From GV Require Import Sched Events WrapperModel WrapperProofs.
Local Open Scope Z_scope.

(* ---------- the sequential specification ---------- *)
Inductive regop := RLoad | RStore (v : Z) | RXchg (v : Z) | RCas (e d : Z).
Inductive ret := ROk | RVal (v : Z) | RCasRes (success : bool) (expected_out : Z).
Definition reg_apply (x : Z) (o : regop) : Z * ret :=
  match o with
  | RLoad => (x, RVal x)
  | RStore v => (v, ROk)
  | RXchg v => (v, RVal x)
  | RCas e d => if x =? e then (d, RCasRes true e) else (x, RCasRes false x)
  end.
(* how the driver / model report a result in K_RET *)
Definition ret_code (r : ret) : Z :=
  match r with ROk => 0 | RVal v => v | RCasRes s x => 2 * x + (if s then 1 else 0) end.
Definition regop_of (o : op) : option regop :=
  match o with
  | Load | Cast => Some RLoad
  | Store v | Assign v => Some (RStore v)
  | Exchange v => Some (RXchg v)
  | Cas e d => Some (RCas e d)
  | _ => None
  end.

Record lentry := LE { le_t : nat; le_op : regop; le_ret : ret }.

(* the entry appended by the step of thread t taken from (g, l), if that step is a linearization point:
   the end of the read window of load / operator T / read / a failing compare_exchange's second read, and
   the end of every write window of the wrapped object (store, operator=, exchange, a succeeding
   compare_exchange; a write through a handle is logged as a store) *)
Definition lin_of (t : nat) (g : glob) (l : loc) : option lentry :=
  match at_ l with
  | Run fr (MRead :: rest) (S _) r ok =>
    match fr with
    | FUse _ | FGuard Load _ | FGuard Cast _ | FGuard (ReadF _) _ => Some (LE t RLoad (RVal (val g)))
    | FGuard (Cas e d) _ =>
      match rest with
      | [MWrite (Priv _) _] => Some (LE t (RCas e d) (RCasRes false (val g)))
      | _ => None
      end
    | _ => None
    end
  | Run fr (MWrite Obj s :: rest) (S _) r ok =>
    let x := match s with Const v => v | Reg => r end in
    match fr with
    | FGuard (Exchange _) _ => Some (LE t (RXchg x) (RVal r))
    | FGuard (Cas e d) _ => Some (LE t (RCas e d) (RCasRes true e))
    | _ => Some (LE t (RStore x) ROk)
    end
  | _ => None
  end.

(* ---------- the model run together with its log ---------- *)
Definition lglob := (glob * list lentry)%type.     (* newest entry first *)
Definition ltstep (cf : config) (t c : nat) (G : lglob) (l : loc) : option (lglob * loc * list ev) :=
  match tstep cf t c (fst G) l with
  | Some (g', l', es) =>
    Some ((g', match lin_of t (fst G) l with Some e => e :: snd G | None => snd G end), l', es)
  | None => None
  end.
Definition linit (cf : config) (progs : list (list op)) : sys lglob loc :=
  Sys (gl (init cf progs), []) (thr (init cf progs)).
Definition RL (cf : config) (progs : list (list op)) (s : sys lglob loc) : Prop :=
  reachable lglob loc (ltstep cf) (linit cf progs) s.
Definition proj (s : sys lglob loc) : sysW := Sys (fst (gl s)) (thr s).
Definition llog (s : sys lglob loc) : list lentry := snd (gl s).

Lemma proj_step cf s tc : proj (step lglob loc (ltstep cf) s tc) = step glob loc (tstep cf) (proj s) tc.
Proof.
  destruct tc as [t c]. unfold step, sys_step, proj, ltstep. cbn [gl thr].
  destruct (nth_error (thr s) t) as [l|]; [|reflexivity].
  destruct (tstep cf t c (fst (gl s)) l) as [[[g' l'] es]|]; reflexivity.
Qed.
Lemma proj_run cf sched : forall s, proj (run lglob loc (ltstep cf) s sched) = run glob loc (tstep cf) (proj s) sched.
Proof.
  induction sched as [|tc r IH]; intros s; cbn [run fold_left]; [reflexivity|].
  unfold run in IH. rewrite IH, proj_step. reflexivity.
Qed.
(* the projection of a logged run is a run of the model ... *)
Lemma RL_R cf progs s : RL cf progs s -> R cf progs (proj s).
Proof. intros [sc ->]. exists sc. rewrite proj_run. reflexivity. Qed.
(* ... and every reachable state of the model carries a log *)
Lemma R_RL cf progs s : R cf progs s -> exists sl, RL cf progs sl /\ proj sl = s.
Proof.
  intros [sc ->]. exists (run lglob loc (ltstep cf) (linit cf progs) sc). split; [exists sc; reflexivity|].
  rewrite proj_run. reflexivity.
Qed.

(* ---------- legal sequential runs of the register ---------- *)
Inductive legal (x0 : Z) : list lentry -> Z -> Prop :=
| legal_nil : legal x0 [] x0
| legal_cons e lg x x' : legal x0 lg x -> reg_apply x (le_op e) = (x', le_ret e) -> legal x0 (e :: lg) x'.

Fixpoint head_of (t : nat) (lg : list lentry) : option lentry :=
  match lg with [] => None | e :: r => if Nat.eqb (le_t e) t then Some e else head_of t r end.

(* ---------- what a step does to the payload value ---------- *)
Lemma exec_mi_fields cf t i ph r ok g :
  val (m_g (exec_mi cf t i ph r ok g)) =
    match i, ph with
    | MWrite Obj s, S _ => match s with Const v => v | Reg => r end
    | MIncr, S (S (S _)) => r + 1
    | _, _ => val g
    end /\
  incrs (m_g (exec_mi cf t i ph r ok g)) =
    match i, ph with MIncr, S (S (S _)) => S (incrs g) | _, _ => incrs g end /\
  misuse (m_g (exec_mi cf t i ph r ok g)) = misuse g.
Proof.
  unfold exec_mi, rd_begin, rd_end, wr_begin, wr_end.
  destruct i as [fid snap| |tg s| |e d];
    [| destruct ph | destruct tg; destruct ph | destruct ph as [|[|[|ph]]] | destruct ph]; cbn;
    try (destruct (existsb _ _); cbn); auto.
Qed.
Lemma tstep_glob_run cf t c g pr sl fr i rest ph r ok g' l' es :
  tstep cf t c g (Loc pr (Run fr (i :: rest) ph r ok) sl) = Some (g', l', es) ->
  g' = m_g (exec_mi cf t i ph r ok g).
Proof.
  unfold tstep. cbn [at_ slots prog]. intros Hs.
  destruct (m_thrown _); [destruct fr; inversion Hs; reflexivity|].
  destruct (negb (m_done _)); [inversion Hs; reflexivity|].
  destruct (match m_rest _ with Some c' => c' | None => rest end); destruct fr; inversion Hs; reflexivity.
Qed.
Lemma tstep_val_nonrun cf t c g l g' l' es : tstep cf t c g l = Some (g', l', es) ->
  (forall fr code ph r ok, at_ l <> Run fr code ph r ok) ->
  val g' = val g /\ incrs g' = incrs g /\ (misuse g <= misuse g')%nat.
Proof.
  intros Hs Hn. destruct l as [pr p sl]. cbn [at_] in Hn.
  destruct p; try (exfalso; eapply Hn; reflexivity).
  all: step_cases Hs; auto.
  all: try match goal with H : acquire _ _ _ _ _ = Some _ |- _ =>
         destruct (acquire_obj _ _ _ _ _ _ _ _ H) as [[Ev [_ [_ [Ei _]]]] [Em _]]; rewrite Ev, Ei, Em; auto end.
  all: try match goal with H : release _ _ _ _ = _ |- _ =>
         destruct (release_obj _ _ _ _ _ _ H) as [[Ev [_ [_ [Ei _]]]] [Em _]]; rewrite Ev, Ei, Em; auto end.
  all: cbn; auto.
Qed.

(* the value changes only in the step that closes a write window of a thread that writes *)
Lemma tstep_val cf t c g l g' l' es : tstep cf t c g l = Some (g', l', es) ->
  val g' = val g \/ exists fr i rest ph r ok, at_ l = Run fr (i :: rest) (S ph) r ok /\ ro_mi i = false.
Proof.
  intros Hs. destruct l as [pr p sl].
  destruct p; try (left; apply (tstep_val_nonrun _ _ _ _ _ _ _ _ Hs); cbn; intros; discriminate).
  destruct code as [|i rest]; [discriminate|].
  pose proof (tstep_glob_run _ _ _ _ _ _ _ _ _ _ _ _ _ _ _ Hs) as ->.
  destruct (exec_mi_fields cf t i ph r ok g) as [Ev _]. rewrite Ev.
  destruct i as [fid snap| |[|b] s| |e d]; auto; destruct ph as [|ph]; auto.
  - right. repeat eexists.
  - destruct ph as [|[|ph]]; auto. right. repeat eexists.
Qed.
Lemma val_change_holder cf g ls t c l g' l' es :
  Inv1 cf g ls -> Inv2 cf g ls -> safe cf g -> nth_error ls t = Some l ->
  tstep cf t c g l = Some (g', l', es) -> val g' <> val g -> lx cf l = 1%nat.
Proof.
  intros H1 H2 Hs Hl Hst Hv. destruct (tstep_val _ _ _ _ _ _ _ _ Hst) as [E|[fr [i [rest [ph [r [ok [Hp Hro]]]]]]]]; [congruence|].
  pose proof (I_cov _ _ _ H2 Hs t) as Hc. rewrite (locof_at _ _ _ Hl) in Hc.
  destruct (Hc _ _ _ _ _ Hp) as [Hx|[_ Hn]]; [exact Hx|]. cbn in Hn. rewrite Hro in Hn. discriminate.
Qed.
