(* C07 for cow_guarded: every atomic operation of the inner left-right protocol is seq_cst in the model (the
   correspondence check compares the memory-order argument of every atomic operation of the source with it). *)
From Coq Require Import List Arith ZArith Lia Bool.
Import ListNotations.
From GV Require Import Sched Events CowModel CowBase.
Local Open Scope Z_scope.

Definition is_atomic_kind (k : Z) : bool :=
  (k =? K_LOAD) || (k =? K_STORE) || (k =? K_RMW) || (k =? K_CAS_OK) || (k =? K_CAS_FAIL) || (k =? K_XCHG).

Lemma fault_evs_mo v codes e : In e (fault_evs v codes) -> ek e = K_FAULT /\ emo e = MO_NA.
Proof. unfold fault_evs. intros H. apply in_map_iff in H. destruct H as [c [<- _]]. split; reflexivity. Qed.

Lemma cow_all_atomics_seq_cst t c g l g' l' es e :
  tstep t c g l = Some (g', l', es) -> In e es ->
  emo e = (if is_atomic_kind (ek e) then MO_SEQ_CST else MO_NA).
Proof.
  intros Hs Hin. destruct l.
  step_cases Hs; cbn in Hin;
    repeat (destruct Hin as [Hin|Hin]; [subst e; reflexivity|]); try contradiction.
  all: repeat match goal with
       | H : In _ (_ ++ _) |- _ => apply in_app_or in H; destruct H as [H|H]
       | H : In _ (fault_evs _ _) |- _ => apply fault_evs_mo in H; destruct H as [Hk Hm]; rewrite Hk, Hm; reflexivity
       | H : In _ (_ :: _) |- _ => destruct H as [H|H]; [subst e; reflexivity|]
       | H : In _ [] |- _ => destruct H
       end.
Qed.
