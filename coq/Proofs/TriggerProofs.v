(* Invariants and progress facts for the TriggerVariable model (property C11). *)
From Coq Require Import List Arith ZArith Lia Bool.
Import ListNotations.
From GV Require Import Sched Events TriggerModel.
Local Open Scope Z_scope.

Notation sysT := (sys glob loc).
Notation runT := (run glob loc tstep).
Notation stepT := (step glob loc tstep).
Notation enabledT := (enabled glob loc tstep).
Notation quiescentT := (quiescent glob loc tstep).

(* ---------- pc classification ---------- *)
Definition holdsT (p : pc) : bool :=
  match p with
  | A_clear | A_unlockT | T_store _ | T_notify _ | T_unlock _
  | W_test _ | W_pred _ | W_sleep _ | W_final | W_unlock _ _ => true
  | _ => false
  end.
Definition holdsA (p : pc) : bool :=
  match p with
  | A_set | A_notify | A_unlockA | V_test _ | V_pred _ | V_sleep _ | V_final | V_unlock _ _
  | R_load | R_loop | R_unl | R_store | R_unlock => true
  | _ => false
  end.
Definition is_Wwoken (p : pc) : bool := match p with W_woken _ => true | _ => false end.
Definition is_Vwoken (p : pc) : bool := match p with V_woken _ => true | _ => false end.
Definition is_Tnotify (p : pc) : bool := match p with T_notify _ => true | _ => false end.
Definition is_Anotify (p : pc) : bool := match p with A_notify => true | _ => false end.

(* the API operation a pc belongs to (the nested trigger() of reset() belongs to reset) *)
Definition cur_op (p : pc) : option op :=
  match p with
  | Idle => None
  | A_load | A_lockT | A_clear | A_unlockT | A_lockA | A_set | A_notify | A_unlockA => Some Activate
  | T_load Top | T_lock Top | T_store Top | T_notify Top | T_unlock Top => Some Trigger
  | T_load InReset | T_lock InReset | T_store InReset | T_notify InReset | T_unlock InReset => Some Reset
  | I_load => Some IsTriggered | IA_load => Some IsActive
  | W_load tm | W_lock tm | W_test tm | W_pred tm | W_sleep tm | W_woken tm | W_unlock tm _ =>
    Some (if tm then WaitFor else Wait)
  | W_final | W_relock _ => Some WaitFor
  | V_lock tm | V_test tm | V_pred tm | V_sleep tm | V_woken tm | V_unlock tm _ =>
    Some (if tm then WaitForActivation else WaitActivation)
  | V_final | V_relock _ => Some WaitForActivation
  | R_lock | R_load | R_loop | R_unl | R_relock | R_store | R_unlock => Some Reset
  end.

Lemma mem_In t l : mem t l = true <-> In t l.
Proof.
  unfold mem. rewrite existsb_exists. split.
  - intros [x [Hx He]]. apply Nat.eqb_eq in He. subst. exact Hx.
  - intros H. exists t. split; [exact H|apply Nat.eqb_refl].
Qed.
Lemma In_rem t u l : In u (rem t l) <-> In u l /\ u <> t.
Proof.
  unfold rem. rewrite filter_In. split; intros [H1 H2]; split; auto.
  - intros ->. rewrite Nat.eqb_refl in H2. discriminate.
  - apply negb_true_iff. apply Nat.eqb_neq. auto.
Qed.

Definition pcof (ls : list loc) (u : nat) : pc :=
  match nth_error ls u with Some l => at_ l | None => Idle end.
Lemma pcof_upd ls t l l' u : nth_error ls t = Some l ->
  pcof (upd ls t l') u = if Nat.eqb u t then at_ l' else pcof ls u.
Proof.
  intros H. unfold pcof. destruct (Nat.eqb_spec u t) as [->|Hne].
  - rewrite (nth_upd_eq _ _ _ _ H). reflexivity.
  - rewrite nth_upd_ne by auto. reflexivity.
Qed.
Lemma pcof_at ls t l : nth_error ls t = Some l -> pcof ls t = at_ l.
Proof. intros H. unfold pcof. rewrite H. reflexivity. Qed.
Arguments pcof : simpl never.

Ltac step_cases Hs :=
  unfold tstep in Hs; cbn [at_ prog] in Hs;
  repeat match type of Hs with
         | context [match ?x with _ => _ end] => destruct x eqn:?; cbn in Hs
         | context [if ?x then _ else _] => destruct x eqn:?; cbn in Hs
         end;
  try discriminate; inversion Hs; subst; clear Hs.

Ltac gsimpl :=
  cbn [activated triggered mT mA slT slA now act_stamp act_clear deact_stamp clear_stamp trig_stamp rexit_stamp nact ntfT ntfA
       tick set_mT set_mA set_slT set_slA do_clear do_trig do_act do_deact do_rexit do_ntfT do_ntfA
       prog at_ sclr slp fslp myclr] in *.

(* ---------- invariant 1: the two mutexes and the two sleeper lists ---------- *)
Record Inv1 (g : glob) (ls : list loc) : Prop := {
  I_ownT : forall u, holdsT (pcof ls u) = true -> mT g = Some u;
  I_heldT : forall a, mT g = Some a -> holdsT (pcof ls a) = true;
  I_ownA : forall u, holdsA (pcof ls u) = true -> mA g = Some u;
  I_heldA : forall a, mA g = Some a -> holdsA (pcof ls a) = true;
  I_slT : forall u, In u (slT g) -> is_Wwoken (pcof ls u) = true;
  I_slA : forall u, In u (slA g) -> is_Vwoken (pcof ls u) = true
}.

Lemma Inv1_step : forall g ls t c l g' l' es,
  Inv1 g ls -> nth_error ls t = Some l -> tstep t c g l = Some (g', l', es) -> Inv1 g' (upd ls t l').
Proof.
  intros g ls t c l g' l' es HI Hl Hs.
  destruct l as [pr p s1 s2 s3 s4].
  destruct HI as [HOT HHT HOA HHA HST HSA].
  pose proof (pcof_at _ _ _ Hl) as Hp; cbn in Hp.
  step_cases Hs; gsimpl.
  all: try match goal with o : op |- _ => destruct o; cbn [entry] in * end.
  all: constructor; gsimpl.
  all: intros u; rewrite (pcof_upd _ _ _ _ _ Hl); cbn [at_];
       pose proof (HOT t) as HOTt; pose proof (HHT t) as HHTt; pose proof (HOA t) as HOAt; pose proof (HHA t) as HHAt;
       pose proof (HOT u) as HOTu; pose proof (HHT u) as HHTu; pose proof (HOA u) as HOAu; pose proof (HHA u) as HHAu;
       pose proof (HST u) as HSTu; pose proof (HSA u) as HSAu; pose proof (HST t) as HSTt; pose proof (HSA t) as HSAt;
       clear HOT HHT HOA HHA HST HSA;
       destruct (Nat.eqb_spec u t) as [->|Hne]; cbn; intros;
       rewrite ?Hp in *; cbn in *;
       try match goal with H : In _ (rem _ _) |- _ => apply In_rem in H; destruct H end;
       try (intuition (discriminate || congruence || eauto); fail).
Qed.

(* ---------- invariant 2: what the flags are at the pcs that have tested / stored them under the lock ---------- *)
(* value of `triggered` known at a pc (all such pcs own triggerLock) *)
Definition needT (p : pc) : option bool :=
  match p with
  | W_unlock _ r => Some r | W_sleep _ => Some false | T_notify _ => Some true
  | _ => None
  end.
(* value of `activated` known at a pc (all such pcs own activeLock) *)
Definition needA (p : pc) : option bool :=
  match p with
  | V_unlock _ r => Some r | V_sleep _ => Some false
  | A_notify => Some true | A_unlockA => Some true | R_unlock => Some false
  | _ => None
  end.
(* the untimed waits never give up *)
Definition gaveup_untimed (p : pc) : bool :=
  match p with W_unlock false false => true | V_unlock false false => true | _ => false end.

Record Inv2 (g : glob) (ls : list loc) : Prop := {
  F_T : forall u b, needT (pcof ls u) = Some b -> triggered g = b;
  F_A : forall u b, needA (pcof ls u) = Some b -> activated g = b;
  F_tm : forall u, gaveup_untimed (pcof ls u) = false;
  F_wakeT : forall u, In u (slT g) -> triggered g = true ->
            exists a, mT g = Some a /\ is_Tnotify (pcof ls a) = true;
  F_wakeA : forall u, In u (slA g) -> activated g = true ->
            exists a, mA g = Some a /\ is_Anotify (pcof ls a) = true
}.

Lemma needT_holds p b : needT p = Some b -> holdsT p = true.
Proof. destruct p; cbn; congruence. Qed.
Lemma needA_holds p b : needA p = Some b -> holdsA p = true.
Proof. destruct p; cbn; congruence. Qed.

Lemma Inv2_step : forall g ls t c l g' l' es,
  Inv1 g ls -> Inv2 g ls -> nth_error ls t = Some l -> tstep t c g l = Some (g', l', es) -> Inv2 g' (upd ls t l').
Proof.
  intros g ls t c l g' l' es HI1 HI Hl Hs.
  destruct l as [pr p s1 s2 s3 s4].
  destruct HI1 as [HOT HHT HOA HHA HST HSA].
  destruct HI as [HFT HFA HTM HWT HWA].
  pose proof (pcof_at _ _ _ Hl) as Hp; cbn in Hp.
  assert (HexT : forall u b, needT (pcof ls u) = Some b -> mT g = Some u)
    by (intros u b Hn; apply HOT; eapply needT_holds; eauto).
  assert (HexA : forall u b, needA (pcof ls u) = Some b -> mA g = Some u)
    by (intros u b Hn; apply HOA; eapply needA_holds; eauto).
  step_cases Hs; gsimpl.
  all: try match goal with o : op |- _ => destruct o; cbn [entry] in * end.
  all: constructor; gsimpl.
  (* F_T, F_A, F_tm *)
  all: try (intros u; rewrite (pcof_upd _ _ _ _ _ Hl); cbn [at_];
       pose proof (HOT t) as HOTt; pose proof (HOA t) as HOAt;
       pose proof (HFT t) as HFTt; pose proof (HFA t) as HFAt; pose proof (HTM t) as HTMt; pose proof (HTM u) as HTMu;
       pose proof (HFT u) as HFTu; pose proof (HFA u) as HFAu; pose proof (HexT u) as HexTu; pose proof (HexA u) as HexAu;
       rewrite Hp in *; cbn in *;
       destruct (Nat.eqb_spec u t) as [->|Hne]; cbn; intros;
       rewrite ?Hp in *; cbn in *;
       try match goal with H : needT (pcof _ ?u) = Some ?b |- _ => pose proof (HexTu _ H) end;
       try match goal with H : needA (pcof _ ?u) = Some ?b |- _ => pose proof (HexAu _ H) end;
       try (intuition (discriminate || congruence || eauto); fail);
       try (destruct tm; reflexivity)).
  (* F_wakeT *)
  all: try (intros u Hin Htr; gsimpl;
       first [ discriminate | contradiction | congruence
       | pose proof (HOT t) as HOTt; rewrite Hp in HOTt; cbn in HOTt;
         pose proof (HFT t) as HFTt; rewrite Hp in HFTt; cbn in HFTt;
         first [ specialize (HFTt _ eq_refl); congruence
         | exists t; split; [apply HOTt; reflexivity | rewrite (pcof_upd _ _ _ _ _ Hl), Nat.eqb_refl; reflexivity]
         | try (apply In_rem in Hin; destruct Hin as [Hin _]);
           edestruct (HWT u Hin) as [a [Ha Hn]]; [first [exact Htr | reflexivity | congruence] | ];
           first [ congruence | discriminate
           | try (specialize (HOTt eq_refl));
             exists a; rewrite (pcof_upd _ _ _ _ _ Hl); cbn [at_];
             destruct (Nat.eqb_spec a t) as [->|Hne];
             [ rewrite Hp in Hn; cbn in Hn; first [discriminate | split; auto; congruence] | split; auto; congruence ] ] ] ]).
  (* F_wakeA *)
  all: try (intros u Hin Htr; gsimpl;
       first [ discriminate | contradiction | congruence
       | pose proof (HOA t) as HOAt; rewrite Hp in HOAt; cbn in HOAt;
         pose proof (HFA t) as HFAt; rewrite Hp in HFAt; cbn in HFAt;
         first [ specialize (HFAt _ eq_refl); congruence
         | exists t; split; [apply HOAt; reflexivity | rewrite (pcof_upd _ _ _ _ _ Hl), Nat.eqb_refl; reflexivity]
         | try (apply In_rem in Hin; destruct Hin as [Hin _]);
           edestruct (HWA u Hin) as [a [Ha Hn]]; [first [exact Htr | reflexivity | congruence] | ];
           first [ congruence | discriminate
           | try (specialize (HOAt eq_refl));
             exists a; rewrite (pcof_upd _ _ _ _ _ Hl); cbn [at_];
             destruct (Nat.eqb_spec a t) as [->|Hne];
             [ rewrite Hp in Hn; cbn in Hn; first [discriminate | split; auto; congruence] | split; auto; congruence ] ] ] ]).

Qed.

(* ---------- invariant 3: the ghost stamps ---------- *)
Definition dloc : loc := Loc [] Idle 0 0 0 0.
Definition locof (ls : list loc) (u : nat) : loc :=
  match nth_error ls u with Some l => l | None => dloc end.
Lemma locof_upd ls t l l' u : nth_error ls t = Some l ->
  locof (upd ls t l') u = if Nat.eqb u t then l' else locof ls u.
Proof.
  intros H. unfold locof. destruct (Nat.eqb_spec u t) as [->|Hne].
  - rewrite (nth_upd_eq _ _ _ _ H). reflexivity.
  - rewrite nth_upd_ne by auto. reflexivity.
Qed.
Lemma locof_at ls t l : nth_error ls t = Some l -> locof ls t = l.
Proof. intros H. unfold locof. rewrite H. reflexivity. Qed.
Arguments locof : simpl never.

Definition after_clear (p : pc) : bool :=
  match p with A_unlockT | A_lockA | A_set => true | _ => false end.

Local Open Scope nat_scope.
Record Inv3 (a0 : bool) (g : glob) (ls : list loc) : Prop := {
  S_now : act_stamp g < now g /\ deact_stamp g < now g /\ clear_stamp g < now g /\ trig_stamp g < now g /\
          rexit_stamp g < now g;
  S_loc : forall u, sclr (locof ls u) <= clear_stamp g /\ myclr (locof ls u) <= clear_stamp g /\
                    slp (locof ls u) < now g /\ fslp (locof ls u) <= slp (locof ls u);
  S_fslp : forall u, is_Wwoken (pcof ls u) || is_Vwoken (pcof ls u) = true -> 0 < fslp (locof ls u);
  S_myclr : forall u, after_clear (pcof ls u) = true -> 0 < myclr (locof ls u);
  S_trig : (triggered g = true -> clear_stamp g < trig_stamp g) /\
           (triggered g = false -> (trig_stamp g = 0 \/ trig_stamp g < clear_stamp g) /\
                                   (rexit_stamp g = 0 \/ rexit_stamp g < clear_stamp g));
  S_act : (activated g = true -> deact_stamp g < act_stamp g \/ (act_stamp g = 0 /\ deact_stamp g = 0)) /\
          (activated g = false -> act_stamp g = 0 \/ act_stamp g < deact_stamp g);
  S_init : activated g = true -> act_stamp g = 0 -> a0 = true;
  S_actclear : act_clear g <= clear_stamp g /\ (act_stamp g = 0 -> act_clear g = 0 /\ nact g = 0) /\
               (0 < act_stamp g -> 0 < act_clear g < act_stamp g /\ 0 < nact g);
  S_slT : forall u, In u (slT g) -> slp (locof ls u) <= trig_stamp g \/ slp (locof ls u) <= rexit_stamp g ->
          exists a, mT g = Some a /\ is_Tnotify (pcof ls a) = true;
  S_slA : forall u, In u (slA g) -> slp (locof ls u) <= act_stamp g ->
          exists a, mA g = Some a /\ is_Anotify (pcof ls a) = true
}.

Lemma Inv3_step : forall a0 g ls t c l g' l' es,
  Inv1 g ls -> Inv2 g ls -> Inv3 a0 g ls -> nth_error ls t = Some l -> tstep t c g l = Some (g', l', es) ->
  Inv3 a0 g' (upd ls t l').
Proof.
  intros a0 g ls t c l g' l' es HI1 HI2 HI Hl Hs.
  destruct l as [pr p s1 s2 s3 s4].
  destruct HI1 as [HOT HHT HOA HHA HST HSA].
  destruct HI2 as [HFT HFA HTM HWT HWA].
  destruct HI as [HN HL HFS HMC HTR HAC HIN HACL HLT HLA].
  pose proof (pcof_at _ _ _ Hl) as Hp; cbn in Hp.
  pose proof (locof_at _ _ _ Hl) as Hlo.
  pose proof (HL t) as HLt. rewrite Hlo in HLt. cbn in HLt.
  pose proof (HMC t) as HMCt. rewrite Hlo, Hp in HMCt. cbn in HMCt.
  step_cases Hs; gsimpl.
  all: try match goal with o : op |- _ => destruct o; cbn [entry] in * end.
  all: constructor; gsimpl.
  (* S_now *)
  all: try lia.
  (* S_loc *)
  all: try (intros u; rewrite (locof_upd _ _ _ _ _ Hl); pose proof (HL u) as HLu;
            destruct (Nat.eqb_spec u t) as [->|Hne]; gsimpl;
            try match goal with |- context [Nat.eqb ?x 0] => destruct (Nat.eqb_spec x 0) end; lia).
  (* S_fslp, S_myclr *)
  all: try (intros u; rewrite (locof_upd _ _ _ _ _ Hl), (pcof_upd _ _ _ _ _ Hl);
            pose proof (HFS u) as HFSu; pose proof (HMC u) as HMCu; pose proof (HFS t) as HFSt;
            rewrite Hlo, Hp in HFSt; cbn in HFSt;
            destruct (Nat.eqb_spec u t) as [->|Hne]; gsimpl; cbn;
            try match goal with |- context [Nat.eqb ?x 0] => destruct (Nat.eqb_spec x 0) end;
            first [ discriminate | assumption | intros; lia | intros; discriminate
                  | intros; apply HFSt; reflexivity | intros; apply HMCt; reflexivity ]).
  (* S_trig, S_act, S_actclear *)
  all: try solve [ lazymatch goal with |- forall u, In _ _ -> _ => fail | _ => idtac end;
          clear HLT HLA HWT HWA HOT HHT HOA HHA HST HSA HFT HFA HTM HL HFS HMC;
          try specialize (HMCt eq_refl);
          destruct HTR as [HTR1 HTR2]; destruct HAC as [HAC1 HAC2]; destruct HACL as [HC1 [HC2 HC3]];
          repeat split; intros; try discriminate;
          repeat match goal with
                 | H : ?x = ?x -> _ |- _ => specialize (H eq_refl)
                 | H : ?P -> _, H' : ?P |- _ => specialize (H H')
                 end;
          try congruence; try lia ].
  (* S_init *)
  all: try solve [ intros; first [ discriminate | congruence | lia | apply HIN; first [assumption | reflexivity | lia] ] ].
  (* S_slT *)
  all: try (intros u Hin Hst; gsimpl; rewrite (locof_upd _ _ _ _ _ Hl) in Hst;
       pose proof (HOT t) as HOTt; rewrite Hp in HOTt; cbn in HOTt;
       first [ contradiction
       | try (apply In_rem in Hin; destruct Hin as [Hin Hne0]);
         try (destruct Hin as [Heq|Hin]; [subst u; rewrite Nat.eqb_refl in Hst; gsimpl; exfalso; lia | ]);
         destruct (Nat.eqb_spec u t) as [->|Hne];
         [ first [ congruence | pose proof (HST t Hin) as Hw; rewrite Hp in Hw; discriminate ] | ];
         first [ exists t; split; [apply HOTt; reflexivity | rewrite (pcof_upd _ _ _ _ _ Hl), Nat.eqb_refl; reflexivity]
         | edestruct (HLT u Hin) as [a [Ha Hn]]; [ first [exact Hst | lia] | ];
           first [ congruence | discriminate
           | try (specialize (HOTt eq_refl));
             exists a; rewrite (pcof_upd _ _ _ _ _ Hl); cbn [at_];
             destruct (Nat.eqb_spec a t) as [->|Hne2];
             [ rewrite Hp in Hn; cbn in Hn; first [discriminate | split; auto; congruence] | split; auto; congruence ] ]
         | edestruct (HWT u Hin) as [a [Ha Hn]]; [ first [assumption | reflexivity] | ];
           first [ congruence | discriminate
           | try (specialize (HOTt eq_refl));
             exists a; rewrite (pcof_upd _ _ _ _ _ Hl); cbn [at_];
             destruct (Nat.eqb_spec a t) as [->|Hne2];
             [ rewrite Hp in Hn; cbn in Hn; first [discriminate | split; auto; congruence] | split; auto; congruence ] ] ] ]).
  (* S_slA *)
  all: try (intros u Hin Hst; gsimpl; rewrite (locof_upd _ _ _ _ _ Hl) in Hst;
       pose proof (HOA t) as HOTt; rewrite Hp in HOTt; cbn in HOTt;
       first [ contradiction
       | try (apply In_rem in Hin; destruct Hin as [Hin Hne0]);
         try (destruct Hin as [Heq|Hin]; [subst u; rewrite Nat.eqb_refl in Hst; gsimpl; exfalso; lia | ]);
         destruct (Nat.eqb_spec u t) as [->|Hne];
         [ first [ congruence | pose proof (HSA t Hin) as Hw; rewrite Hp in Hw; discriminate ] | ];
         first [ exists t; split; [apply HOTt; reflexivity | rewrite (pcof_upd _ _ _ _ _ Hl), Nat.eqb_refl; reflexivity]
         | edestruct (HLA u Hin) as [a [Ha Hn]]; [ first [exact Hst | lia] | ];
           first [ congruence | discriminate
           | try (specialize (HOTt eq_refl));
             exists a; rewrite (pcof_upd _ _ _ _ _ Hl); cbn [at_];
             destruct (Nat.eqb_spec a t) as [->|Hne2];
             [ rewrite Hp in Hn; cbn in Hn; first [discriminate | split; auto; congruence] | split; auto; congruence ] ]
         | edestruct (HWA u Hin) as [a [Ha Hn]]; [ first [assumption | reflexivity] | ];
           first [ congruence | discriminate
           | try (specialize (HOTt eq_refl));
             exists a; rewrite (pcof_upd _ _ _ _ _ Hl); cbn [at_];
             destruct (Nat.eqb_spec a t) as [->|Hne2];
             [ rewrite Hp in Hn; cbn in Hn; first [discriminate | split; auto; congruence] | split; auto; congruence ] ] ] ]).
  (* the second and later sleeps of a call keep the stamp of the first one *)
  all: intros u; rewrite (locof_upd _ _ _ _ _ Hl), (pcof_upd _ _ _ _ _ Hl);
       destruct (Nat.eqb_spec u t) as [->|Hne]; cbn; [intros _; apply Nat.eqb_neq in Heqb; lia | apply HFS].
Qed.

(* ---------- the invariant of the reachable states ---------- *)
Definition Inv (a0 : bool) (g : glob) (ls : list loc) : Prop := Inv1 g ls /\ Inv2 g ls /\ Inv3 a0 g ls.

Lemma Inv_step a0 : forall g ls t c l g' l' es,
  Inv a0 g ls -> nth_error ls t = Some l -> tstep t c g l = Some (g', l', es) -> Inv a0 g' (upd ls t l').
Proof.
  intros g ls t c l g' l' es [H1 [H2 H3]] Hl Hs. split; [|split].
  - eapply Inv1_step; eauto.
  - eapply Inv2_step; eauto.
  - eapply Inv3_step; eauto.
Qed.

Lemma Inv_init a0 progs : Inv a0 (gl (init a0 progs)) (thr (init a0 progs)).
Proof.
  assert (P : forall u, pcof (map (fun p => Loc p Idle 0 0 0 0) progs) u = Idle).
  { intros u. unfold pcof. rewrite nth_error_map. destruct (nth_error progs u); reflexivity. }
  assert (Q : forall u, let l := locof (map (fun p => Loc p Idle 0 0 0 0) progs) u in
                        sclr l = 0 /\ slp l = 0 /\ fslp l = 0 /\ myclr l = 0).
  { intros u. unfold locof. rewrite nth_error_map. destruct (nth_error progs u); cbn; auto. }
  unfold init; cbn [gl thr]. split; [|split]; constructor; cbn; intros; rewrite ?P in *; cbn in *;
    try discriminate; try contradiction; try lia; auto.
  destruct (Q u) as [-> [-> [-> ->]]]. lia.
Qed.

Definition R (a0 : bool) (progs : list (list op)) (s : sysT) : Prop := reachable glob loc tstep (init a0 progs) s.

Lemma R_inv a0 progs s : R a0 progs s -> Inv a0 (gl s) (thr s).
Proof. intros H. eapply reachable_inv; [apply Inv_step|apply Inv_init|exact H]. Qed.

Lemma ret_in v w (es : list ev) e : In (ret_ev v) [e; ret_ev w] -> ek e <> K_RET -> v = w.
Proof.
  intros [H|[H|[]]] Hk.
  - subst e. cbn in Hk. congruence.
  - unfold ret_ev, E in H. inversion H. reflexivity.
Qed.

(* ---------- C11, safety ---------- *)
(* wait() / wait_for() returning true: either this very step read activated = false, or triggered is
   true and the last triggered=true store follows the last clear, which is not older than the clear of
   the activation the call observed *)
Lemma wait_safe a0 progs s t c l g' l' es :
  R a0 progs s -> nth_error (thr s) t = Some l ->
  cur_op (at_ l) = Some Wait \/ cur_op (at_ l) = Some WaitFor ->
  tstep t c (gl s) l = Some (g', l', es) -> In (ret_ev 1%Z) es ->
  (activated (gl s) = false /\ exists tm, at_ l = W_load tm) \/
  (triggered (gl s) = true /\ sclr l <= clear_stamp (gl s) /\
   clear_stamp (gl s) < trig_stamp (gl s) /\ trig_stamp (gl s) < now (gl s)).
Proof.
  intros HR Hl Hop Hs Hret.
  destruct (R_inv _ _ _ HR) as [H1 [H2 H3]].
  pose proof (F_T _ _ H2 t) as HFT. rewrite (pcof_at _ _ _ Hl) in HFT.
  pose proof (S_loc _ _ _ H3 t) as HL. rewrite (locof_at _ _ _ Hl) in HL.
  pose proof (S_trig _ _ _ H3) as [HT _]. pose proof (S_now _ _ _ H3) as HN.
  destruct l as [pr p s1 s2 s3 s4]. cbn [at_ sclr] in *.
  step_cases Hs; cbn in Hop; try (destruct Hop; discriminate);
    try (destruct k; destruct Hop; discriminate);
    try (destruct tm; destruct Hop; discriminate);
    cbn in Hret; repeat (destruct Hret as [Hret|Hret]; try discriminate); try contradiction.
  - left. split; eauto.
  - right. assert (r = true) by (destruct r; [reflexivity|discriminate]). subst r.
    specialize (HFT true eq_refl). specialize (HT HFT). cbn in HL. repeat split; try lia; auto.
Qed.

Lemma wait_observes t c g l g' l' es tm :
  at_ l = W_load tm -> activated g = true -> tstep t c g l = Some (g', l', es) ->
  at_ l' = W_lock tm /\ sclr l' = act_clear g.
Proof.
  intros Hp Ha Hs. destruct l as [pr p s1 s2 s3 s4]. cbn in Hp. subst p.
  unfold tstep in Hs. cbn [at_] in Hs. rewrite Ha in Hs. inversion Hs. cbn. auto.
Qed.

(* the stamp bookkeeping behind [sclr]: the activation's clear precedes its activated=true store *)
Lemma act_clear_facts a0 progs s : R a0 progs s ->
  act_clear (gl s) <= clear_stamp (gl s) /\
  (0 < act_stamp (gl s) -> 0 < act_clear (gl s) < act_stamp (gl s)) /\
  (act_stamp (gl s) = 0 -> act_clear (gl s) = 0 /\ nact (gl s) = 0) /\
  (triggered (gl s) = true <-> clear_stamp (gl s) < trig_stamp (gl s)).
Proof.
  intros HR. destruct (R_inv _ _ _ HR) as [_ [_ H3]].
  destruct (S_actclear _ _ _ H3) as [A [B C]]. destruct (S_trig _ _ _ H3) as [D E].
  repeat split; auto; try (apply C; auto); try (apply B; auto).
  intros H. destruct (triggered (gl s)); [reflexivity|]. destruct (E eq_refl) as [[|] _]; lia.
Qed.

(* waitActivation / wait_forActivation: every return goes through V_unlock, with the flag as returned *)
Lemma waitActivation_safe a0 progs s t c l g' l' es v :
  R a0 progs s -> nth_error (thr s) t = Some l ->
  cur_op (at_ l) = Some WaitActivation \/ cur_op (at_ l) = Some WaitForActivation ->
  tstep t c (gl s) l = Some (g', l', es) -> In (ret_ev v) es ->
  exists tm r, at_ l = V_unlock tm r /\ v = v_ret tm r /\ activated (gl s) = r /\
               (r = false -> tm = true /\ (act_stamp (gl s) = 0 \/ act_stamp (gl s) < deact_stamp (gl s))) /\
               (r = true -> 0 < act_stamp (gl s) \/ a0 = true).
Proof.
  intros HR Hl Hop Hs Hret.
  destruct (R_inv _ _ _ HR) as [H1 [H2 H3]].
  pose proof (F_A _ _ H2 t) as HFA. rewrite (pcof_at _ _ _ Hl) in HFA.
  pose proof (F_tm _ _ H2 t) as HTM. rewrite (pcof_at _ _ _ Hl) in HTM.
  pose proof (S_init _ _ _ H3) as HI0. pose proof (S_act _ _ _ H3) as [_ HA2].
  destruct l as [pr p s1 s2 s3 s4]. cbn [at_] in *.
  step_cases Hs; cbn in Hop; try (destruct Hop; discriminate);
    try (destruct k; destruct Hop; discriminate);
    try (destruct tm; destruct Hop; discriminate);
    cbn in Hret; repeat (destruct Hret as [Hret|Hret]; try discriminate); try contradiction.
  exists tm, r. specialize (HFA r eq_refl).
  unfold ret_ev, E in Hret. inversion Hret.
  refine (conj eq_refl (conj eq_refl (conj HFA (conj _ _)))).
  - intros ->. split; [destruct tm; [reflexivity|discriminate]|auto].
  - intros ->. destruct (act_stamp (gl s)) eqn:E1; [right; apply HI0; auto|left; lia].
Qed.

(* the timed waits return false only with the flag false at the moment of the return; the untimed wait never does *)
Lemma timed_false a0 progs s t c l g' l' es :
  R a0 progs s -> nth_error (thr s) t = Some l ->
  cur_op (at_ l) = Some Wait \/ cur_op (at_ l) = Some WaitFor ->
  tstep t c (gl s) l = Some (g', l', es) -> In (ret_ev 0%Z) es ->
  cur_op (at_ l) = Some WaitFor /\ triggered (gl s) = false /\
  (trig_stamp (gl s) = 0 \/ trig_stamp (gl s) < clear_stamp (gl s)).
Proof.
  intros HR Hl Hop Hs Hret.
  destruct (R_inv _ _ _ HR) as [H1 [H2 H3]].
  pose proof (F_T _ _ H2 t) as HFT. rewrite (pcof_at _ _ _ Hl) in HFT.
  pose proof (F_tm _ _ H2 t) as HTM. rewrite (pcof_at _ _ _ Hl) in HTM.
  pose proof (S_trig _ _ _ H3) as [_ HT].
  destruct l as [pr p s1 s2 s3 s4]. cbn [at_] in *.
  step_cases Hs; cbn in Hop; try (destruct Hop; discriminate);
    try (destruct k; destruct Hop; discriminate);
    try (destruct tm; destruct Hop; discriminate);
    cbn in Hret; repeat (destruct Hret as [Hret|Hret]; try discriminate); try contradiction.
  assert (r = false) by (destruct r; [discriminate|reflexivity]). subst r.
  specialize (HFT false eq_refl). destruct (HT HFT) as [HT1 _].
  destruct tm; [|discriminate]. cbn. auto.
Qed.

(* trigger(): returns false exactly when its load reads activated = false, and then nothing but the clock moved *)
Lemma trigger_inactive t c g l g' l' es :
  cur_op (at_ l) = Some Trigger -> tstep t c g l = Some (g', l', es) ->
  (In (ret_ev 0%Z) es <-> at_ l = T_load Top /\ activated g = false) /\
  (In (ret_ev 0%Z) es -> g' = tick g /\ at_ l' = Idle /\ es = [ESC K_LOAD O_ACT 0%Z; ret_ev 0%Z]) /\
  (In (ret_ev 1%Z) es -> at_ l = T_unlock Top).
Proof.
  intros Hop Hs. destruct l as [pr p s1 s2 s3 s4]. cbn [at_] in *.
  step_cases Hs; cbn in Hop; try discriminate; try (destruct tm; discriminate).
  all: refine (conj (conj _ _) (conj _ _)).
  all: try (intros Hret;
            first [ destruct Hret as [Ha Hb]; (discriminate || congruence)
                  | cbn in Hret; repeat (destruct Hret as [Hret|Hret]; try discriminate); try contradiction ]).
  all: cbn; auto.
Qed.

(* reset(): the variable is inactive when reset returns (and the returning step does not change that) *)
Lemma reset_inactive a0 progs s t c l g' l' es v :
  R a0 progs s -> nth_error (thr s) t = Some l -> cur_op (at_ l) = Some Reset ->
  tstep t c (gl s) l = Some (g', l', es) -> In (ret_ev v) es ->
  at_ l = R_unlock /\ activated (gl s) = false /\ activated g' = false.
Proof.
  intros HR Hl Hop Hs Hret.
  destruct (R_inv _ _ _ HR) as [H1 [H2 H3]].
  pose proof (F_A _ _ H2 t) as HFA. rewrite (pcof_at _ _ _ Hl) in HFA.
  destruct l as [pr p s1 s2 s3 s4]. cbn [at_] in *.
  step_cases Hs; cbn in Hop; try discriminate; try (destruct tm; discriminate);
    cbn in Hret; repeat (destruct Hret as [Hret|Hret]; try discriminate); try contradiction.
  specialize (HFA false eq_refl). cbn. auto.
Qed.

(* ---------- C11, liveness ---------- *)
(* a thread that owns a mutex can always take its next step: no mutex is held across a wait or a lock *)
Lemma holderT_enabled a0 progs s a c : R a0 progs s -> mT (gl s) = Some a -> enabledT s a c.
Proof.
  intros HR Hm. destruct (R_inv _ _ _ HR) as [H1 _].
  pose proof (I_heldT _ _ H1 a Hm) as Hh. unfold pcof in Hh.
  destruct (nth_error (thr s) a) as [l|] eqn:Hl; [|discriminate].
  assert (exists r, tstep a c (gl s) l = Some r) as [r Hr]; [|exists l, r; auto].
  destruct l as [pr p s1 s2 s3 s4]. cbn in Hh. unfold tstep. cbn [at_ prog].
  destruct p; try discriminate; try (eexists; reflexivity).
  destruct k; eexists; reflexivity.
Qed.
Lemma holderA_enabled a0 progs s a c : R a0 progs s -> mA (gl s) = Some a -> enabledT s a c.
Proof.
  intros HR Hm. destruct (R_inv _ _ _ HR) as [H1 _].
  pose proof (I_heldA _ _ H1 a Hm) as Hh. unfold pcof in Hh.
  destruct (nth_error (thr s) a) as [l|] eqn:Hl; [|discriminate].
  assert (exists r, tstep a c (gl s) l = Some r) as [r Hr]; [|exists l, r; auto].
  destruct l as [pr p s1 s2 s3 s4]. cbn in Hh. unfold tstep. cbn [at_ prog].
  destruct p; try discriminate; try (eexists; reflexivity).
  destruct (triggered (gl s)); eexists; reflexivity.
Qed.

(* no lost wake-up, in every reachable state: a sleeper on cv_trigger that has not been notified although
   triggered is true / a trigger store (by trigger() or by reset()) or a reset loop exit happened since it
   went to sleep: the notifier owns triggerLock, stands right before its notify_all, and can move *)
Lemma wake_pending_T a0 progs s u :
  R a0 progs s -> In u (slT (gl s)) ->
  triggered (gl s) = true \/ slp (locof (thr s) u) <= trig_stamp (gl s) \/ slp (locof (thr s) u) <= rexit_stamp (gl s) ->
  exists a, mT (gl s) = Some a /\ is_Tnotify (pcof (thr s) a) = true /\ enabledT s a 0.
Proof.
  intros HR Hin Hc. destruct (R_inv _ _ _ HR) as [_ [H2 H3]].
  assert (exists a, mT (gl s) = Some a /\ is_Tnotify (pcof (thr s) a) = true) as [a [Ha Hn]].
  { destruct Hc as [Hc|Hc]; [eapply F_wakeT; eauto|eapply S_slT; eauto]. }
  exists a. repeat split; auto. eapply holderT_enabled; eauto.
Qed.
Lemma wake_pending_A a0 progs s u :
  R a0 progs s -> In u (slA (gl s)) ->
  activated (gl s) = true \/ slp (locof (thr s) u) <= act_stamp (gl s) ->
  exists a, mA (gl s) = Some a /\ is_Anotify (pcof (thr s) a) = true /\ enabledT s a 0.
Proof.
  intros HR Hin Hc. destruct (R_inv _ _ _ HR) as [_ [H2 H3]].
  assert (exists a, mA (gl s) = Some a /\ is_Anotify (pcof (thr s) a) = true) as [a [Ha Hn]].
  { destruct Hc as [Hc|Hc]; [eapply F_wakeA; eauto|eapply S_slA; eauto]. }
  exists a. repeat split; auto. eapply holderA_enabled; eauto.
Qed.

(* a notified sleeper is never stuck: it can wake, or the owner of its mutex can move *)
Lemma notified_moves a0 progs s t l tm :
  R a0 progs s -> nth_error (thr s) t = Some l ->
  (at_ l = W_woken tm /\ ~ In t (slT (gl s))) \/ (at_ l = V_woken tm /\ ~ In t (slA (gl s))) ->
  exists b, enabledT s b 0.
Proof.
  intros HR Hl [[Hp Hn]|[Hp Hn]]; destruct l as [pr p s1 s2 s3 s4]; cbn in Hp; subst p.
  - assert (mem t (slT (gl s)) = false) as Hmem
      by (destruct (mem t (slT (gl s))) eqn:E; [apply mem_In in E; contradiction|reflexivity]).
    destruct tm.
    + exists t. eexists; eexists. split; [exact Hl|]. unfold tstep. cbn [at_]. rewrite Hmem. cbn. reflexivity.
    + destruct (mT (gl s)) as [a|] eqn:Hm; [exists a; eapply holderT_enabled; eauto|].
      exists t. eexists; eexists. split; [exact Hl|]. unfold tstep. cbn [at_]. rewrite Hmem. cbn. rewrite Hm. reflexivity.
  - assert (mem t (slA (gl s)) = false) as Hmem
      by (destruct (mem t (slA (gl s))) eqn:E; [apply mem_In in E; contradiction|reflexivity]).
    destruct tm.
    + exists t. eexists; eexists. split; [exact Hl|]. unfold tstep. cbn [at_]. rewrite Hmem. cbn. reflexivity.
    + destruct (mA (gl s)) as [a|] eqn:Hm; [exists a; eapply holderA_enabled; eauto|].
      exists t. eexists; eexists. split; [exact Hl|]. unfold tstep. cbn [at_]. rewrite Hmem. cbn. rewrite Hm. reflexivity.
Qed.

(* what a state looks like when nothing can move without a spurious wake-up: every thread has finished its
   program, or sleeps un-notified in wait() with triggered false and no trigger store / reset loop exit since it
   went to sleep, or sleeps un-notified in waitActivation() with activated false and no activation since *)
Lemma quiescent_shape a0 progs s t l :
  R a0 progs s -> quiescentT s -> nth_error (thr s) t = Some l ->
  fin l = true \/
  (at_ l = W_woken false /\ In t (slT (gl s)) /\ triggered (gl s) = false /\
   trig_stamp (gl s) < slp l /\ rexit_stamp (gl s) < slp l) \/
  (at_ l = V_woken false /\ In t (slA (gl s)) /\ activated (gl s) = false /\ act_stamp (gl s) < slp l).
Proof.
  intros HR HQ Hl. destruct (R_inv _ _ _ HR) as [H1 [H2 H3]].
  assert (HfT : mT (gl s) = None).
  { destruct (mT (gl s)) as [a|] eqn:Hm; [|reflexivity].
    exfalso. apply (HQ a 0); [lia|]. eapply holderT_enabled; eauto. }
  assert (HfA : mA (gl s) = None).
  { destruct (mA (gl s)) as [a|] eqn:Hm; [|reflexivity].
    exfalso. apply (HQ a 0); [lia|]. eapply holderA_enabled; eauto. }
  assert (Hdis : forall c, c <> 1 -> tstep t c (gl s) l = None).
  { intros c Hc. destruct (tstep t c (gl s) l) as [r|] eqn:Hs; [|reflexivity].
    exfalso. apply (HQ t c Hc). exists l, r. auto. }
  pose proof (Hdis 0 ltac:(lia)) as Hd0. pose proof (Hdis 2 ltac:(lia)) as Hd2.
  pose proof (locof_at _ _ _ Hl) as Hlo.
  pose proof (F_wakeT _ _ H2 t) as HWT. pose proof (F_wakeA _ _ H2 t) as HWA.
  pose proof (S_slT _ _ _ H3 t) as HLT. pose proof (S_slA _ _ _ H3 t) as HLA. rewrite Hlo in HLT, HLA.
  destruct l as [pr p s1 s2 s3 s4]. unfold tstep in Hd0, Hd2. cbn [at_ prog slp] in *.
  destruct p; try discriminate; try (rewrite ?HfT, ?HfA in Hd0; discriminate).
  - destruct pr; [left; reflexivity|discriminate].
  - destruct (activated (gl s)); discriminate.
  - destruct (activated (gl s)); [discriminate|destruct k; discriminate].
  - destruct k; discriminate.
  - destruct (activated (gl s)); discriminate.
  - (* W_woken *)
    right; left. destruct tm; [cbn in Hd2; rewrite orb_true_r in Hd2; discriminate|].
    rewrite HfT in Hd2. cbn in Hd2.
    destruct (mem t (slT (gl s))) eqn:Hm; [|discriminate]. apply mem_In in Hm.
    assert (triggered (gl s) = false) as Htr.
    { destruct (triggered (gl s)); [|reflexivity]. destruct (HWT Hm eq_refl) as [a [Ha _]]. congruence. }
    repeat split; auto.
    + destruct (le_lt_dec s2 (trig_stamp (gl s))) as [Hle|Hlt]; [|exact Hlt].
      destruct (HLT Hm (or_introl Hle)) as [a [Ha _]]. congruence.
    + destruct (le_lt_dec s2 (rexit_stamp (gl s))) as [Hle|Hlt]; [|exact Hlt].
      destruct (HLT Hm (or_intror Hle)) as [a [Ha _]]. congruence.
  - (* V_woken *)
    right; right. destruct tm; [cbn in Hd2; rewrite orb_true_r in Hd2; discriminate|].
    rewrite HfA in Hd2. cbn in Hd2.
    destruct (mem t (slA (gl s))) eqn:Hm; [|discriminate]. apply mem_In in Hm.
    assert (activated (gl s) = false) as Htr.
    { destruct (activated (gl s)); [|reflexivity]. destruct (HWA Hm eq_refl) as [a [Ha _]]. congruence. }
    repeat split; auto.
    destruct (le_lt_dec s2 (act_stamp (gl s))) as [Hle|Hlt]; [|exact Hlt].
    destruct (HLA Hm Hle) as [a [Ha _]]. congruence.
  - destruct (triggered (gl s)); discriminate.
Qed.

(* released by trigger() / reset(): if a thread is still blocked in wait() when nothing moves any more, then every
   triggered=true store (and every reset loop exit) made after it first went to sleep was followed by a
   triggered=false store, i.e. the variable was re-activated while the thread was still blocked *)
Lemma no_lost_wakeup_trigger a0 progs s t l :
  R a0 progs s -> quiescentT s -> nth_error (thr s) t = Some l -> is_Wwoken (at_ l) = true ->
  0 < fslp l /\
  (fslp l < trig_stamp (gl s) -> trig_stamp (gl s) < clear_stamp (gl s)) /\
  (fslp l < rexit_stamp (gl s) -> rexit_stamp (gl s) < clear_stamp (gl s)).
Proof.
  intros HR HQ Hl Hw. destruct (R_inv _ _ _ HR) as [_ [_ H3]].
  pose proof (S_fslp _ _ _ H3 t) as HF. rewrite (pcof_at _ _ _ Hl), (locof_at _ _ _ Hl), Hw in HF.
  specialize (HF eq_refl).
  destruct (quiescent_shape _ _ _ _ _ HR HQ Hl) as [Hf|[[Hp [_ [Htr _]]]|[Hp _]]].
  - unfold fin in Hf. destruct (at_ l); discriminate.
  - destruct (S_trig _ _ _ H3) as [_ HT]. destruct (HT Htr) as [A B]. repeat split; auto; lia.
  - rewrite Hp in Hw. discriminate.
Qed.

(* the reset() half on its own, with what a loop exit of reset() is: the step of reset() that reads
   triggered = true (and only that one) stamps rexit_stamp and goes on to deactivate *)
Lemma no_lost_wakeup_reset a0 progs s t l :
  R a0 progs s -> quiescentT s -> nth_error (thr s) t = Some l -> is_Wwoken (at_ l) = true ->
  fslp l < rexit_stamp (gl s) -> rexit_stamp (gl s) < clear_stamp (gl s).
Proof. intros HR HQ Hl Hw. apply (no_lost_wakeup_trigger _ _ _ _ _ HR HQ Hl Hw). Qed.
Lemma reset_exit_step t c g l g' l' es :
  at_ l = R_loop -> tstep t c g l = Some (g', l', es) ->
  (triggered g = true -> at_ l' = R_store /\ rexit_stamp g' = now g) /\
  (triggered g = false -> at_ l' = R_unl /\ rexit_stamp g' = rexit_stamp g).
Proof.
  intros Hp Hs. destruct l as [pr p s1 s2 s3 s4]. cbn in Hp. subst p.
  unfold tstep in Hs. cbn [at_] in Hs. destruct (triggered g); inversion Hs; cbn; split; intros; try discriminate; auto.
Qed.

Lemma no_lost_wakeup_activate a0 progs s t l :
  R a0 progs s -> quiescentT s -> nth_error (thr s) t = Some l -> is_Vwoken (at_ l) = true ->
  0 < fslp l /\ (fslp l < act_stamp (gl s) -> act_stamp (gl s) < deact_stamp (gl s)).
Proof.
  intros HR HQ Hl Hw. destruct (R_inv _ _ _ HR) as [_ [_ H3]].
  pose proof (S_fslp _ _ _ H3 t) as HF. rewrite (pcof_at _ _ _ Hl), (locof_at _ _ _ Hl), Hw, orb_true_r in HF.
  specialize (HF eq_refl).
  destruct (quiescent_shape _ _ _ _ _ HR HQ Hl) as [Hf|[[Hp _]|[Hp [_ [Hac _]]]]].
  - unfold fin in Hf. destruct (at_ l); discriminate.
  - rewrite Hp in Hw. discriminate.
  - destruct (S_act _ _ _ H3) as [_ HA]. specialize (HA Hac). split; auto; lia.
Qed.

(* the same, as "every waiter has returned": when nothing moves and the flag is (still) true, no thread is
   inside a wait on that flag *)
Lemma trigger_releases a0 progs s t l :
  R a0 progs s -> quiescentT s -> triggered (gl s) = true -> nth_error (thr s) t = Some l ->
  cur_op (at_ l) <> Some Wait /\ cur_op (at_ l) <> Some WaitFor.
Proof.
  intros HR HQ Htr Hl.
  destruct (quiescent_shape _ _ _ _ _ HR HQ Hl) as [Hf|[[Hp [_ [Htr' _]]]|[Hp _]]].
  - unfold fin in Hf. destruct (at_ l); try discriminate. cbn. split; discriminate.
  - congruence.
  - rewrite Hp. cbn. split; discriminate.
Qed.
Lemma activate_releases a0 progs s t l :
  R a0 progs s -> quiescentT s -> activated (gl s) = true -> nth_error (thr s) t = Some l ->
  cur_op (at_ l) <> Some WaitActivation /\ cur_op (at_ l) <> Some WaitForActivation.
Proof.
  intros HR HQ Htr Hl.
  destruct (quiescent_shape _ _ _ _ _ HR HQ Hl) as [Hf|[[Hp _]|[Hp [_ [Htr' _]]]]].
  - unfold fin in Hf. destruct (at_ l); try discriminate. cbn. split; discriminate.
  - rewrite Hp. cbn. split; discriminate.
  - congruence.
Qed.

(* trigger(), activate(), reset() and the flag queries never wait for an event: a thread that cannot move is
   finished, or waits for a mutex whose owner can move, or sleeps un-notified inside one of the four waits *)
Lemma disabled_shape a0 progs s t l :
  R a0 progs s -> nth_error (thr s) t = Some l -> tstep t 0 (gl s) l = None ->
  fin l = true \/
  (exists a, (mT (gl s) = Some a \/ mA (gl s) = Some a) /\ a <> t /\ enabledT s a 0) \/
  (is_Wwoken (at_ l) = true /\ In t (slT (gl s))) \/ (is_Vwoken (at_ l) = true /\ In t (slA (gl s))).
Proof.
  intros HR Hl Hs. destruct (R_inv _ _ _ HR) as [H1 _].
  pose proof (I_heldT _ _ H1 t) as HhT. pose proof (I_heldA _ _ H1 t) as HhA.
  rewrite (pcof_at _ _ _ Hl) in HhT, HhA.
  assert (LT : forall a, mT (gl s) = Some a -> holdsT (at_ l) = false ->
               exists a, (mT (gl s) = Some a \/ mA (gl s) = Some a) /\ a <> t /\ enabledT s a 0).
  { intros a Ha Hh. exists a. repeat split; auto.
    - intros ->. rewrite (HhT Ha) in Hh. discriminate.
    - eapply holderT_enabled; eauto. }
  assert (LA : forall a, mA (gl s) = Some a -> holdsA (at_ l) = false ->
               exists a, (mT (gl s) = Some a \/ mA (gl s) = Some a) /\ a <> t /\ enabledT s a 0).
  { intros a Ha Hh. exists a. repeat split; auto.
    - intros ->. rewrite (HhA Ha) in Hh. discriminate.
    - eapply holderA_enabled; eauto. }
  destruct l as [pr p s1 s2 s3 s4]. unfold tstep in Hs. cbn [at_ prog] in *.
  destruct p; try discriminate;
    try (destruct (mT (gl s)) as [a|] eqn:Hm; [right; left; eapply LT; eauto|discriminate]);
    try (destruct (mA (gl s)) as [a|] eqn:Hm; [right; left; eapply LA; eauto|discriminate]).
  - destruct pr; [left; reflexivity|discriminate].
  - destruct (activated (gl s)); discriminate.
  - destruct (activated (gl s)); [discriminate|destruct k; discriminate].
  - destruct k; discriminate.
  - destruct (activated (gl s)); discriminate.
  - destruct (mem t (slT (gl s))) eqn:Hm.
    + right; right; left. split; [reflexivity|apply mem_In; exact Hm].
    + destruct tm; cbn in Hs; [discriminate|]. destruct (mT (gl s)) as [a|] eqn:Hm2; [right; left; eapply LT; eauto|discriminate].
  - destruct (mem t (slA (gl s))) eqn:Hm.
    + right; right; right. split; [reflexivity|apply mem_In; exact Hm].
    + destruct tm; cbn in Hs; [discriminate|]. destruct (mA (gl s)) as [a|] eqn:Hm2; [right; left; eapply LA; eauto|discriminate].
  - destruct (triggered (gl s)); discriminate.
Qed.

(* ---------- deciding quiescence of a concrete state (used by the Examples and the refutation witness) ---------- *)
Lemma tstep_choice t c g l : c <> 1 -> c <> 2 -> tstep t c g l = tstep t 0 g l.
Proof.
  intros H1 H2. assert (Nat.eqb c 1 = false) as E1 by (apply Nat.eqb_neq; exact H1).
  assert (Nat.eqb c 2 = false) as E2 by (apply Nat.eqb_neq; exact H2).
  unfold tstep. destruct (at_ l); try reflexivity; rewrite E1, E2; reflexivity.
Qed.

Definition is_none {A} (o : option A) : bool := match o with None => true | Some _ => false end.
Definition qcheck (s : sysT) : bool :=
  forallb (fun t => match nth_error (thr s) t with
                    | Some l => is_none (tstep t 0 (gl s) l) && is_none (tstep t 2 (gl s) l)
                    | None => true
                    end) (seq 0 (length (thr s))).

Lemma qcheck_quiescent s : qcheck s = true -> quiescentT s.
Proof.
  intros H t c Hc [l [r [Hl Hs]]].
  unfold qcheck in H. rewrite forallb_forall in H.
  assert (t < length (thr s)) as Hlt by (apply nth_error_Some; congruence).
  specialize (H t). rewrite Hl in H.
  assert (In t (seq 0 (length (thr s)))) as Hin by (apply in_seq; lia).
  specialize (H Hin). apply andb_true_iff in H as [H0 H2].
  destruct (Nat.eq_dec c 2) as [->|Hc2].
  - rewrite Hs in H2. discriminate.
  - rewrite (tstep_choice _ _ _ _ Hc Hc2) in Hs. rewrite Hs in H0. discriminate.
Qed.

(* ---------- the unconditional form of "activate() releases the blocked waitActivation()" is false ----------
   thread 0 sleeps in waitActivation(); thread 1 runs activate() (which returns true) and then reset();
   thread 0 is notified, wakes, finds activated = false again and goes back to sleep for ever.  The variable was
   activated exactly once, so it was not "re-activated while the waiter was still blocked". *)
Definition cex_progs : list (list op) := [[WaitActivation]; [Activate; Reset]].
Definition cex_sched : list (nat * nat) :=
  repeat (0, 0) 5 ++ repeat (1, 0) 9 ++ repeat (1, 0) 14 ++ repeat (0, 0) 3.
Definition cex_state : sysT := runT (init false cex_progs) cex_sched.

Lemma activate_release_unconditional_refuted :
  exists a0 progs sched t l,
    let s := runT (init a0 progs) sched in
    quiescentT s /\ nth_error (thr s) t = Some l /\ at_ l = V_woken false /\ In t (slA (gl s)) /\
    0 < fslp l /\ fslp l < act_stamp (gl s) /\ nact (gl s) = 1 /\ activated (gl s) = false.
Proof.
  exists false, cex_progs, cex_sched, 0.
  eexists. cbn zeta. split; [apply qcheck_quiescent; vm_compute; reflexivity|].
  split; [vm_compute; reflexivity|]. vm_compute. repeat split; auto; lia.
Qed.

(* ---------- bounded work (P2), for programs without reset() ----------
   reset() contains a genuine spin: `while (!triggered) { unlock; trigger(); lock; }` repeats for as long as a
   concurrent activate() sits between its `triggered = false` and its `activated = true` (trigger() returns false
   there), so no measure decreases on every non-spurious step of a program that mixes reset() and activate().
   For the other eight operations every step that is not a spurious wake-up decreases the measure below. *)
Definition is_reset (o : op) : bool := match o with Reset => true | _ => false end.
Definition in_reset (p : pc) : bool := match cur_op p with Some Reset => true | _ => false end.
Definition no_reset_loc (l : loc) : bool := forallb (fun o => negb (is_reset o)) (prog l) && negb (in_reset (at_ l)).
Definition no_reset_prog (p : list op) : bool := forallb (fun o => negb (is_reset o)) p.

(* a thread at a woken pc that the last notify_all did not reach is still in the sleeper list *)
Record Inv4 (g : glob) (ls : list loc) : Prop := {
  N_now : ntfT g < now g /\ ntfA g < now g;
  N_T : forall u, is_Wwoken (pcof ls u) = true -> ntfT g < slp (locof ls u) -> In u (slT g);
  N_A : forall u, is_Vwoken (pcof ls u) = true -> ntfA g < slp (locof ls u) -> In u (slA g);
  N_R : forall u, no_reset_loc (locof ls u) = true
}.

Lemma In_rem_intro t u l : In u l -> u <> t -> In u (rem t l).
Proof. intros. apply In_rem. auto. Qed.

Lemma Inv4_step a0 : forall g ls t c l g' l' es,
  Inv a0 g ls -> Inv4 g ls -> nth_error ls t = Some l -> tstep t c g l = Some (g', l', es) -> Inv4 g' (upd ls t l').
Proof.
  intros g ls t c l g' l' es [_ [_ H3]] HI Hl Hs.
  destruct l as [pr p s1 s2 s3 s4].
  destruct HI as [HN HT HA HR].
  pose proof (S_loc _ _ _ H3) as HL.
  pose proof (pcof_at _ _ _ Hl) as Hp; cbn in Hp.
  pose proof (locof_at _ _ _ Hl) as Hlo.
  pose proof (HR t) as HRt. rewrite Hlo in HRt. unfold no_reset_loc in HRt. cbn [prog at_] in HRt.
  step_cases Hs; gsimpl.
  all: try match goal with o : op |- _ => destruct o; cbn [entry] in * end.
  all: try (cbn in HRt; rewrite ?andb_false_r in HRt; discriminate).
  all: constructor; gsimpl.
  all: try lia.
  (* N_T, N_A *)
  all: try (intros u; rewrite (locof_upd _ _ _ _ _ Hl), (pcof_upd _ _ _ _ _ Hl);
            pose proof (HT u) as HTu; pose proof (HA u) as HAu; pose proof (HL u) as HLu;
            destruct (Nat.eqb_spec u t) as [->|Hne]; gsimpl; cbn;
            first [ discriminate | intros; lia | intros; left; reflexivity
                  | intros; right; auto | intros; apply In_rem_intro; auto | auto ]).
  (* N_R *)
  all: try (intros u; rewrite (locof_upd _ _ _ _ _ Hl); pose proof (HR u) as HRu;
            destruct (Nat.eqb_spec u t) as [->|Hne]; [|exact HRu];
            unfold no_reset_loc in *; cbn [prog at_] in *; cbn in HRt |- *;
            rewrite ?andb_true_r in *; first [ exact HRt | reflexivity | (apply andb_true_iff in HRt; tauto) ]).
Qed.

Definition InvP (a0 : bool) (g : glob) (ls : list loc) : Prop := Inv a0 g ls /\ Inv4 g ls.
Lemma InvP_step a0 : forall g ls t c l g' l' es,
  InvP a0 g ls -> nth_error ls t = Some l -> tstep t c g l = Some (g', l', es) -> InvP a0 g' (upd ls t l').
Proof.
  intros g ls t c l g' l' es [H HP] Hl Hs. split; [eapply Inv_step; eauto|eapply Inv4_step; eauto].
Qed.
Lemma InvP_init a0 progs : forallb no_reset_prog progs = true -> InvP a0 (gl (init a0 progs)) (thr (init a0 progs)).
Proof.
  intros HNR. split; [apply Inv_init|].
  assert (P : forall u, pcof (map (fun p => Loc p Idle 0 0 0 0) progs) u = Idle).
  { intros u. unfold pcof. rewrite nth_error_map. destruct (nth_error progs u); reflexivity. }
  unfold init; cbn [gl thr]. constructor; cbn; intros; rewrite ?P in *; cbn in *; try discriminate; try lia.
  unfold locof. rewrite nth_error_map. destruct (nth_error progs u) as [p|] eqn:E; cbn; [|reflexivity].
  unfold no_reset_loc. cbn. rewrite andb_true_r. rewrite forallb_forall in HNR.
  apply (HNR p). eapply nth_error_In; eauto.
Qed.

(* weights: K = 5 * (number of threads) pays for the sleepers a notify_all turns from un-notified into notified *)
Definition wpc (n : nat) (g : glob) (l : loc) : nat :=
  let K := 5 * n in
  match at_ l with
  | Idle => 0
  | A_load => K + 9 | A_lockT => K + 8 | A_clear => K + 7 | A_unlockT => K + 6 | A_lockA => K + 5
  | A_set => K + 4 | A_notify => K + 3 | A_unlockA => 1
  | T_load _ => K + 7 | T_lock _ => K + 6 | T_store _ => K + 5 | T_notify _ => K + 3 | T_unlock _ => 1
  | I_load => 1 | IA_load => 1
  | W_load _ => 12 | W_lock _ => 11 | W_test _ => 10 | W_pred _ => 7 | W_sleep _ => 6
  | W_woken _ => if ntfT g <? slp l then 4 else 9
  | W_relock tmo => if tmo then 3 else 8
  | W_final => 2 | W_unlock _ _ => 1
  | V_lock _ => 11 | V_test _ => 10 | V_pred _ => 7 | V_sleep _ => 6
  | V_woken _ => if ntfA g <? slp l then 4 else 9
  | V_relock tmo => if tmo then 3 else 8
  | V_final => 2 | V_unlock _ _ => 1
  | R_lock | R_load | R_loop | R_unl | R_relock | R_store | R_unlock => 0
  end.
Definition wloc (n : nat) (g : glob) (l : loc) : nat := (5 * n + 14) * length (prog l) + wpc n g l.
Definition mu (s : sysT) : nat := list_sum (map (wloc (length (thr s)) (gl s)) (thr s)).
Definition no_spurious (c : nat) : bool := negb (Nat.eqb c 1).

(* a step of thread t that lowers t's own weight by more than r * (number of threads), while no other weight
   grows by more than r, lowers the sum *)
Lemma sum_raise_bound {A} (f f' : A -> nat) (l : list A) t x y r : nth_error l t = Some x ->
  (forall z, f' z <= f z + r) ->
  list_sum (map f' (upd l t y)) + f x + r <= list_sum (map f l) + f' y + r * length l.
Proof.
  intros Hn Hm. revert t Hn. induction l as [|h q IH]; destruct t; simpl; intros H; try discriminate;
    rewrite Nat.mul_succ_r.
  - inversion H; subst.
    assert (list_sum (map f' q) <= list_sum (map f q) + r * length q) as Hq.
    { clear -Hm. induction q as [|a q IH]; simpl; [lia|]. rewrite Nat.mul_succ_r. pose proof (Hm a). lia. }
    lia.
  - specialize (IH _ H). pose proof (Hm h). lia.
Qed.
Lemma sum_step_raise {A} (f f' : A -> nat) (l : list A) t x y r : nth_error l t = Some x ->
  (forall z, f' z <= f z + r) -> f' y + r * length l < f x + r ->
  list_sum (map f' (upd l t y)) < list_sum (map f l).
Proof. intros Hn Hm Hd. pose proof (sum_raise_bound f f' l t x y r Hn Hm). lia. Qed.

Lemma wloc_same n g g' z : ntfT g' = ntfT g -> ntfA g' = ntfA g -> wloc n g' z = wloc n g z.
Proof. intros H1 H2. unfold wloc, wpc. rewrite H1, H2. reflexivity. Qed.
Lemma wloc_raise n g g' z : wloc n g' z <= wloc n g z + 5.
Proof.
  unfold wloc, wpc. destruct (at_ z); try lia.
  - destruct (ntfT g' <? slp z), (ntfT g <? slp z); lia.
  - destruct (ntfA g' <? slp z), (ntfA g <? slp z); lia.
Qed.

Lemma mu_dec a0 s t c : InvP a0 (gl s) (thr s) -> no_spurious c = true -> enabledT s t c ->
  mu (stepT s (t, c)) < mu s.
Proof.
  intros [HI H4] Hc [l [r [Hl Hs]]]. destruct r as [[g' l'] es].
  unfold step, sys_step. rewrite Hl, Hs. cbn [fst]. unfold mu. cbn [gl thr]. rewrite upd_length.
  set (n := length (thr s)).
  assert (0 < n) as Hn by (unfold n; destruct (thr s); [destruct t; discriminate|cbn; lia]).
  unfold no_spurious in Hc. apply negb_true_iff in Hc.
  destruct H4 as [[HNT HNA] HT HA HR].
  pose proof (HT t) as HTt. pose proof (HA t) as HAt. pose proof (HR t) as HRt.
  rewrite (pcof_at _ _ _ Hl), (locof_at _ _ _ Hl) in HTt, HAt. rewrite (locof_at _ _ _ Hl) in HRt.
  unfold no_reset_loc in HRt.
  destruct l as [pr p s1 s2 s3 s4]. cbn [at_ prog slp] in *.
  step_cases Hs.
  all: try (cbn in HRt; rewrite ?andb_false_r in HRt; discriminate).
  all: try solve [ apply (sum_step_raise (wloc n (gl s)) _ (thr s) t _ _ 5 Hl); [intros z; apply wloc_raise|];
              unfold wloc, wpc; cbn [at_ prog length]; fold n;
              try match goal with |- context [?a * length ?b] => generalize (a * length b); intros end; lia ].
  all: apply (sum_step_dec (wloc n (gl s)) _ (thr s) t _ _ Hl).
  all: try (intros z; rewrite wloc_same by reflexivity; lia).
  all: unfold wloc, wpc; cbn [at_ prog length slp]; gsimpl.
  all: try match goal with o : op |- _ => destruct o; cbn [entry] end.
  all: rewrite ?Nat.mul_succ_r.
  all: try match goal with |- context [?a * length ?b] => generalize (a * length b); intros end.
  all: try lia.
  all: try match goal with
           | |- context [mem ?t0 (slT ?g)] => destruct (mem t0 (slT g)) eqn:Hm; destruct (Nat.eqb c 2) eqn:Hc2; cbn [negb andb orb] in *
           | |- context [mem ?t0 (slA ?g)] => destruct (mem t0 (slA g)) eqn:Hm; destruct (Nat.eqb c 2) eqn:Hc2; cbn [negb andb orb] in *
           end.
  all: repeat match goal with |- context [?a <? ?b] => destruct (Nat.ltb_spec a b) end; try lia.
  all: exfalso;
       first [ rewrite ?Hc in *; cbn in *; congruence
             | first [ pose proof (HTt eq_refl ltac:(assumption)) as Hin | pose proof (HAt eq_refl ltac:(assumption)) as Hin ];
               apply mem_In in Hin; rewrite ?Hin, ?Hc in *; cbn in *; try destruct tm; cbn in *; congruence ].
Qed.

Definition RP (a0 : bool) (progs : list (list op)) (s : sysT) : Prop :=
  forallb no_reset_prog progs = true /\ R a0 progs s.

Lemma RP_inv a0 progs s : RP a0 progs s -> InvP a0 (gl s) (thr s).
Proof. intros [HN HR]. eapply reachable_inv; [apply InvP_step|apply InvP_init; exact HN|exact HR]. Qed.

(* without reset(): every schedule without spurious wake-ups (time-outs allowed) makes at most mu(s) moves *)
Lemma bounded_work a0 progs s sc : RP a0 progs s ->
  sched_ok no_spurious sc -> moves glob loc tstep s sc <= mu s.
Proof.
  intros HR Hok. eapply (moves_le_mu glob loc tstep mu (InvP a0) (InvP_step a0) no_spurious); eauto.
  - intros s0 t c. apply mu_dec.
  - apply (RP_inv _ _ _ HR).
Qed.

(* the spin of reset(): from this reachable state thread 0 (inside reset) makes four steps - trigger() reads
   activated = false, lock, load triggered = false, unlock - and is back where it was: same pcs, same flags,
   same mutexes; only the ghost clock has advanced.  Thread 1 (activate, between its clear and its set) is
   enabled all the time, so this is a busy wait, not a deadlock. *)
Definition spin_progs : list (list op) := [[Reset]; [Reset; Activate]].
Definition spin_sched : list (nat * nat) := repeat (0, 0) 5 ++ repeat (1, 0) 19.
Definition spin_state : sysT := runT (init true spin_progs) spin_sched.
Definition same_visible (s s' : sysT) : Prop :=
  map at_ (thr s) = map at_ (thr s') /\ map prog (thr s) = map prog (thr s') /\
  activated (gl s) = activated (gl s') /\ triggered (gl s) = triggered (gl s') /\
  mT (gl s) = mT (gl s') /\ mA (gl s) = mA (gl s') /\ slT (gl s) = slT (gl s') /\ slA (gl s) = slA (gl s').
Lemma reset_spins :
  same_visible spin_state (runT spin_state (repeat (0, 0) 4)) /\
  moves glob loc tstep spin_state (repeat (0, 0) 4) = 4 /\
  pcof (thr spin_state) 0 = T_load InReset /\ pcof (thr spin_state) 1 = A_lockA /\
  enabledT spin_state 1 0.
Proof.
  split; [vm_compute; repeat split; reflexivity|]. split; [vm_compute; reflexivity|].
  split; [vm_compute; reflexivity|]. split; [vm_compute; reflexivity|].
  eexists; eexists. split; vm_compute; reflexivity.
Qed.

(* ---------- existence form of termination (programs without reset()) ---------- *)
From GV Require Import Progress.

Lemma settled_quiescent s : settled glob loc tstep no_spurious s <-> quiescentT s.
Proof.
  unfold settled, quiescent, no_spurious. split; intros H t c Hc.
  - apply H. apply negb_true_iff, Nat.eqb_neq. exact Hc.
  - apply H. apply negb_true_iff, Nat.eqb_neq in Hc. exact Hc.
Qed.

(* the work-choices are 0 and 2 (time-out); every other choice but 1 behaves like 0 *)
Lemma pick_move s : (exists t c, no_spurious c = true /\ enabledT s t c) \/ settled glob loc tstep no_spurious s.
Proof.
  destruct (enabled_choice_dec glob loc tstep s 0) as [[t He]|Hn0]; [left; exists t, 0; split; [reflexivity|exact He]|].
  destruct (enabled_choice_dec glob loc tstep s 2) as [[t He]|Hn2]; [left; exists t, 2; split; [reflexivity|exact He]|].
  right. intros t c Hc [l [r [Hl Hs]]].
  unfold no_spurious in Hc. apply negb_true_iff, Nat.eqb_neq in Hc.
  destruct (Nat.eq_dec c 2) as [->|Hc2]; [apply (Hn2 t); exists l, r; auto|].
  apply (Hn0 t). exists l, r. split; [exact Hl|]. rewrite <- Hs. symmetry. apply tstep_choice; auto.
Qed.

Lemma RP_run a0 progs s sc : RP a0 progs s -> RP a0 progs (runT s sc).
Proof. intros [HN [sc0 ->]]. split; [exact HN|]. exists (sc0 ++ sc). symmetry. apply run_app. Qed.

(* from every reachable state of a reset-free program there is a schedule of at most mu(s) steps, without any
   spurious wake-up, that ends in a state where nothing can move (whose shape is quiescent_shape) *)
Lemma eventually_settles a0 progs s : RP a0 progs s ->
  exists sc, sched_ok no_spurious sc /\ length sc <= mu s /\ quiescentT (runT s sc).
Proof.
  intros HR.
  destruct (settles glob loc tstep mu (InvP a0) (InvP_step a0) no_spurious (fun s0 t c => mu_dec a0 s0 t c) pick_move s
              (RP_inv _ _ _ HR)) as [sc [Hok [Hlen Hset]]].
  exists sc. repeat split; auto. apply settled_quiescent. exact Hset.
Qed.

(* ---------- ... and every thread finishes, for programs with a "driver" ----------
   Hypothesis (decidable, [wf_finish a0 progs d]): thread d is the only thread that calls activate(); no thread calls
   reset(); d never calls the untimed waits (so it cannot block for ever); and the sequential effect of d's program
   on the two flags, started from (activated = a0, triggered = false), ends in (true, true) - i.e. d activates (or
   the variable is constructed active) and calls trigger() after its last effective activation.  The other threads
   may wait, wait_for, waitActivation, wait_forActivation, trigger and query in any order and number. *)
Fixpoint sim (a tr : bool) (p : list op) : bool * bool :=
  match p with
  | [] => (a, tr)
  | Activate :: r => if a then sim a tr r else sim true false r
  | Trigger :: r => if a then sim a true r else sim a tr r
  | _ :: r => sim a tr r
  end.
Definition nb_op (o : op) : bool := match o with Wait | WaitActivation | Reset => false | _ => true end.
Definition nb_pc (p : pc) : bool :=
  match cur_op p with Some Wait | Some WaitActivation | Some Reset => false | _ => true end.
Definition drv_loc (l : loc) : bool := forallb nb_op (prog l) && nb_pc (at_ l).
Definition quiet_op (o : op) : bool := match o with Activate | Reset => false | _ => true end.
Definition quiet_pc (p : pc) : bool := match cur_op p with Some Activate | Some Reset => false | _ => true end.
Definition quiet_loc (l : loc) : bool := forallb quiet_op (prog l) && quiet_pc (at_ l).
Definition is_tt (x : bool * bool) : bool := fst x && snd x.

Definition wf_finish (a0 : bool) (progs : list (list op)) (d : nat) : bool :=
  match nth_error progs d with
  | Some p => forallb nb_op p && is_tt (sim a0 false p)
  | None => false
  end &&
  forallb (fun u => Nat.eqb u d || forallb quiet_op (nth u progs [])) (seq 0 (length progs)).

(* what the driver's current operation and remaining program will have done to the flags *)
Definition cont (g : glob) (l : loc) : bool * bool :=
  match at_ l with
  | A_load => sim (activated g) (triggered g) (Activate :: prog l)
  | A_lockT | A_clear => sim true false (prog l)
  | A_unlockT | A_lockA | A_set => sim true (triggered g) (prog l)
  | T_load Top => sim (activated g) (triggered g) (Trigger :: prog l)
  | T_lock Top | T_store Top => sim (activated g) true (prog l)
  | _ => sim (activated g) (triggered g) (prog l)
  end.

Record Inv5 (d : nat) (g : glob) (ls : list loc) : Prop := {
  D_drv : drv_loc (locof ls d) = true;
  D_quiet : forall u, u <> d -> quiet_loc (locof ls u) = true;
  D_cont : is_tt (cont g (locof ls d)) = true
}.

Lemma sim_mono p : forall a tr, is_tt (sim a tr p) = true -> is_tt (sim a true p) = true.
Proof.
  induction p as [|o r IH]; intros a tr H; cbn in *.
  - unfold is_tt in *. cbn in *. apply andb_true_iff in H as [-> _]. reflexivity.
  - destruct o; cbn in *; try (eapply IH; eauto; fail); destruct a; eauto.
Qed.

Lemma cont_mono g g' l : activated g' = activated g -> triggered g' = triggered g \/ triggered g' = true ->
  is_tt (cont g l) = true -> is_tt (cont g' l) = true.
Proof.
  intros Ha [Ht|Ht] H; unfold cont in *; rewrite Ha, Ht; auto.
  destruct (at_ l); auto; try (eapply sim_mono; eauto; fail); try (destruct k; auto; eapply sim_mono; eauto; fail).
Qed.

Lemma Inv5_step d : forall g ls t c l g' l' es,
  Inv5 d g ls -> nth_error ls t = Some l -> tstep t c g l = Some (g', l', es) -> Inv5 d g' (upd ls t l').
Proof.
  intros g ls t c l g' l' es [HD HQ HC] Hl Hs.
  destruct (Nat.eq_dec t d) as [->|Hne].
  - (* a step of the driver *)
    rewrite (locof_at _ _ _ Hl) in HD, HC.
    assert (drv_loc l' = true /\ is_tt (cont g' l') = true) as [A B].
    { destruct l as [pr p s1 s2 s3 s4]. unfold drv_loc, cont in *. cbn [prog at_] in *.
      step_cases Hs; gsimpl; cbn [prog at_].
      all: try match goal with o : op |- _ => destruct o; cbn [entry] in * end.
      all: cbn in HD, HC |- *; rewrite ?andb_false_r in HD; try discriminate.
      all: try (split; [first [exact HD | apply andb_true_iff in HD; tauto | reflexivity] | ]).
      all: try match goal with k : ctx |- _ => destruct k; cbn in HD, HC |- *; try discriminate end.
      all: repeat match goal with
                  | H : activated ?g = _ |- context [activated ?g] => rewrite H
                  | H : triggered ?g = _ |- context [triggered ?g] => rewrite H
                  | H : activated ?g = _, H' : context [activated ?g] |- _ => rewrite H in H'
                  | H : triggered ?g = _, H' : context [triggered ?g] |- _ => rewrite H in H'
                  end.
      all: cbn in HC |- *; rewrite ?andb_false_r in HD; try discriminate.
      all: try (split; [first [exact HD | apply andb_true_iff in HD; tauto | reflexivity] | ]).
      all: try exact HC.
      all: destruct tm; cbn in HD; rewrite ?andb_false_r in HD; try discriminate; split; [exact HD|exact HC]. }
    constructor.
    + rewrite (locof_upd _ _ _ _ _ Hl), Nat.eqb_refl. exact A.
    + intros u Hu. rewrite (locof_upd _ _ _ _ _ Hl). destruct (Nat.eqb_spec u d); [contradiction|apply HQ; exact Hu].
    + rewrite (locof_upd _ _ _ _ _ Hl), Nat.eqb_refl. exact B.
  - (* a step of another thread: it never stores activated and never clears triggered *)
    pose proof (HQ t Hne) as HQt. rewrite (locof_at _ _ _ Hl) in HQt.
    assert (quiet_loc l' = true /\ activated g' = activated g /\ (triggered g' = triggered g \/ triggered g' = true))
      as [A [B C]].
    { destruct l as [pr p s1 s2 s3 s4]. unfold quiet_loc in *. cbn [prog at_] in *.
      step_cases Hs; gsimpl; cbn [prog at_].
      all: try match goal with o : op |- _ => destruct o; cbn [entry] in * end.
      all: cbn in HQt |- *; rewrite ?andb_false_r in HQt; try discriminate.
      all: try match goal with k : ctx |- _ => destruct k; cbn in HQt |- *; rewrite ?andb_false_r in HQt; try discriminate end.
      all: try (split; [first [exact HQt | apply andb_true_iff in HQt; tauto | reflexivity] | split; auto]).
      all: destruct tm; cbn in HQt; (split; [exact HQt | split; auto]). }
    assert (Hd : Nat.eqb d t = false) by (apply Nat.eqb_neq; auto).
    constructor.
    + rewrite (locof_upd _ _ _ _ _ Hl), Hd. exact HD.
    + intros u Hu. rewrite (locof_upd _ _ _ _ _ Hl). destruct (Nat.eqb_spec u t); [exact A|apply HQ; exact Hu].
    + rewrite (locof_upd _ _ _ _ _ Hl), Hd. eapply cont_mono; eauto.
Qed.

Lemma Inv5_init a0 progs d : wf_finish a0 progs d = true -> Inv5 d (gl (init a0 progs)) (thr (init a0 progs)).
Proof.
  unfold wf_finish. intros H. apply andb_true_iff in H as [H1 H2].
  destruct (nth_error progs d) as [p|] eqn:Hd; [|discriminate]. apply andb_true_iff in H1 as [Hnb Htt].
  unfold init; cbn [gl thr].
  assert (L : forall u, locof (map (fun p => Loc p Idle 0 0 0 0) progs) u =
                        match nth_error progs u with Some q => Loc q Idle 0 0 0 0 | None => dloc end).
  { intros u. unfold locof. rewrite nth_error_map. destruct (nth_error progs u); reflexivity. }
  constructor.
  - rewrite L, Hd. unfold drv_loc. cbn. rewrite Hnb. reflexivity.
  - intros u Hu. rewrite L. destruct (nth_error progs u) as [q|] eqn:Hq; [|reflexivity].
    unfold quiet_loc. cbn. rewrite andb_true_r.
    rewrite forallb_forall in H2.
    assert (u < length progs) as Hlt by (apply nth_error_Some; congruence).
    specialize (H2 u ltac:(apply in_seq; lia)).
    apply orb_true_iff in H2 as [H2|H2]; [apply Nat.eqb_eq in H2; contradiction|].
    rewrite (nth_error_nth _ _ _ Hq) in H2. exact H2.
  - rewrite L, Hd. unfold cont. cbn. exact Htt.
Qed.

Lemma wf_finish_no_reset a0 progs d : wf_finish a0 progs d = true -> forallb no_reset_prog progs = true.
Proof.
  unfold wf_finish. intros H. apply andb_true_iff in H as [H1 H2].
  destruct (nth_error progs d) as [p|] eqn:Hd; [|discriminate]. apply andb_true_iff in H1 as [Hnb _].
  apply forallb_forall. intros q Hin. apply In_nth_error in Hin as [u Hq].
  unfold no_reset_prog. apply forallb_forall. intros o Ho.
  destruct (Nat.eq_dec u d) as [->|Hne].
  - rewrite Hd in Hq. inversion Hq; subst q. rewrite forallb_forall in Hnb. specialize (Hnb o Ho). destruct o; cbn in *; congruence.
  - rewrite forallb_forall in H2.
    assert (u < length progs) as Hlt by (apply nth_error_Some; congruence).
    specialize (H2 u ltac:(apply in_seq; lia)).
    apply orb_true_iff in H2 as [H2|H2]; [apply Nat.eqb_eq in H2; contradiction|].
    rewrite (nth_error_nth _ _ _ Hq) in H2. rewrite forallb_forall in H2. specialize (H2 o Ho). destruct o; cbn in *; congruence.
Qed.

(* when nothing moves any more in such a program, the driver has finished, so both flags are true, so nobody sleeps *)
Lemma driver_quiescent_finished a0 progs d s :
  wf_finish a0 progs d = true -> R a0 progs s -> quiescentT s ->
  activated (gl s) = true /\ triggered (gl s) = true /\ all_fin glob loc fin s = true.
Proof.
  intros Hwf HR HQ.
  assert (H5 : Inv5 d (gl s) (thr s)).
  { eapply reachable_inv; [apply (Inv5_step d)|apply Inv5_init; exact Hwf|exact HR]. }
  destruct H5 as [HD _ HC].
  assert (activated (gl s) = true /\ triggered (gl s) = true) as [Ha Ht].
  { unfold locof in HD, HC. destruct (nth_error (thr s) d) as [l|] eqn:Hl.
    - destruct (quiescent_shape _ _ _ _ _ HR HQ Hl) as [Hf|[[Hp _]|[Hp _]]].
      + unfold fin in Hf. destruct l as [pr p s1 s2 s3 s4]. cbn in *. destruct p; try discriminate. destruct pr; [|discriminate].
        unfold cont, is_tt in HC. cbn in HC. apply andb_true_iff in HC. exact HC.
      + unfold drv_loc, nb_pc in HD. rewrite Hp in HD. cbn in HD. rewrite andb_false_r in HD. discriminate.
      + unfold drv_loc, nb_pc in HD. rewrite Hp in HD. cbn in HD. rewrite andb_false_r in HD. discriminate.
    - unfold cont, is_tt in HC. cbn in HC. apply andb_true_iff in HC. exact HC. }
  repeat split; auto.
  unfold all_fin. apply forallb_forall. intros l Hin. apply In_nth_error in Hin as [t Hl].
  destruct (quiescent_shape _ _ _ _ _ HR HQ Hl) as [Hf|[[_ [_ [Hc _]]]|[_ [_ [Hc _]]]]]; [exact Hf|congruence|congruence].
Qed.

(* from every reachable state of such a program there is a schedule of at most mu(s) steps, without any spurious
   wake-up, after which every thread has finished its program: every wait returns *)
Lemma eventually_finishes a0 progs d s :
  wf_finish a0 progs d = true -> R a0 progs s ->
  exists sc, sched_ok no_spurious sc /\ length sc <= mu s /\ all_fin glob loc fin (runT s sc) = true.
Proof.
  intros Hwf HR.
  assert (HRP : RP a0 progs s) by (split; [eapply wf_finish_no_reset; eauto|exact HR]).
  destruct (eventually_settles _ _ _ HRP) as [sc [Hok [Hlen HQ]]].
  exists sc. repeat split; auto.
  destruct (RP_run _ _ _ sc HRP) as [_ HR'].
  apply (driver_quiescent_finished a0 progs d _ Hwf HR' HQ).
Qed.

(* ---------- a refused activate() is a no-op ----------
   activate() returns false exactly when its first (and then only) operation, the load of `activated`, reads true;
   that call consists of this single step, which changes nothing but the ghost clock - in particular it does not
   clear `triggered`, so a refused activate() cannot wipe the trigger of the running cycle *)
Lemma refused_activate_noop t c g l g' l' es :
  cur_op (at_ l) = Some Activate -> tstep t c g l = Some (g', l', es) ->
  (In (ret_ev 0%Z) es <-> at_ l = A_load /\ activated g = true) /\
  (In (ret_ev 0%Z) es -> g' = tick g /\ at_ l' = Idle /\ es = [ESC K_LOAD O_ACT 1%Z; ret_ev 0%Z]) /\
  (In (ret_ev 1%Z) es -> at_ l = A_unlockA).
Proof.
  intros Hop Hs. destruct l as [pr p s1 s2 s3 s4]. cbn [at_] in *.
  step_cases Hs; cbn in Hop; try discriminate; try (destruct tm; discriminate); try (destruct k; discriminate).
  all: refine (conj (conj _ _) (conj _ _)).
  all: try (intros Hret;
            first [ destruct Hret as [Ha Hb]; (discriminate || congruence)
                  | cbn in Hret; repeat (destruct Hret as [Hret|Hret]; try discriminate); try contradiction ]).
  all: cbn; auto.
Qed.
