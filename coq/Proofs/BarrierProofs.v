(* Invariants and progress facts for the Barrier model (property C09). *)
From Coq Require Import List Arith ZArith Lia Bool.
Import ListNotations.
From GV Require Import Sched Events BarrierModel.
Local Open Scope Z_scope.

Notation sysB := (sys glob loc).
Notation runB := (run glob loc tstep).
Notation stepB := (step glob loc tstep).
Notation enabledB := (enabled glob loc tstep).
Notation quiescentB := (quiescent glob loc tstep).

(* ---------- pc classification ---------- *)
Definition holds (p : pc) : bool := match p with B_notify | B_sleep | B_unlock => true | _ => false end.
Definition waiting (p : pc) : bool := match p with B_sleep | B_woken => true | _ => false end.
Definition is_woken (p : pc) : bool := match p with B_woken => true | _ => false end.
Definition is_notify (p : pc) : bool := match p with B_notify => true | _ => false end.

(* operations whose arrival has not been made yet *)
Definition todo (l : loc) : list op := match at_ l with B_lock k => k :: prog l | _ => prog l end.

(* participants that have not dropped / that have not dropped and not yet arrived in generation gen *)
Definition active (l : loc) : nat := if dropped l then 0%nat else 1%nat.
Definition pending (gen : Z) (l : loc) : nat :=
  if dropped l then 0%nat else if Z.of_nat (arr l) =? gen + 1 then 0%nat else 1%nat.
Definition num_active (ls : list loc) : nat := list_sum (map active ls).
Definition num_pending (gen : Z) (ls : list loc) : nat := list_sum (map (pending gen) ls).

Lemma mem_In t l : mem t l = true <-> In t l.
Proof.
  unfold mem. rewrite existsb_exists. split.
  - intros [x [Hx He]]. apply Nat.eqb_eq in He. subst. exact Hx.
  - intros H. exists t. split; [exact H|apply Nat.eqb_refl].
Qed.
Lemma In_rem t u l : In u (rem t l) <-> In u l /\ u <> t.
Proof.
  unfold rem. rewrite filter_In. split; intros [H1 H2]; split; auto.
  - intros ->. rewrite Nat.eqb_refl in H2. discriminate.
  - apply negb_true_iff. apply Nat.eqb_neq. auto.
Qed.

(* ---------- sums over the thread list ---------- *)
Lemma sum_ge_nth {A} (f : A -> nat) (ls : list A) t x : nth_error ls t = Some x -> (f x <= list_sum (map f ls))%nat.
Proof.
  revert t; induction ls as [|h r IH]; destruct t; simpl; intros H; try discriminate.
  - inversion H; subst. lia.
  - specialize (IH _ H). lia.
Qed.
Lemma sum_single {A} (f : A -> nat) (ls : list A) t x : nth_error ls t = Some x ->
  list_sum (map f ls) = f x -> forall u y, u <> t -> nth_error ls u = Some y -> f y = 0%nat.
Proof.
  revert t; induction ls as [|h r IH]; destruct t; simpl; intros H E u y Hne Hu; try discriminate.
  - inversion H; subst. destruct u; [congruence|]. simpl in Hu.
    pose proof (sum_ge_nth f r u y Hu). lia.
  - destruct u; simpl in Hu.
    + inversion Hu; subst. pose proof (sum_ge_nth f r t x H). lia.
    + pose proof (sum_ge_nth f r t x H). eapply (IH t H); [lia| |exact Hu]. congruence.
Qed.
Lemma sum_ext_nth {A} (f h : A -> nat) (ls : list A) :
  (forall u x, nth_error ls u = Some x -> f x = h x) -> list_sum (map f ls) = list_sum (map h ls).
Proof.
  induction ls as [|a r IH]; simpl; intros H; [reflexivity|].
  rewrite (H 0%nat a eq_refl). rewrite IH; [reflexivity|]. intros u x Hu. apply (H (S u) x Hu).
Qed.
Lemma sum_pos_ex {A} (f : A -> nat) (ls : list A) : (1 <= list_sum (map f ls))%nat ->
  exists u x, nth_error ls u = Some x /\ (1 <= f x)%nat.
Proof.
  induction ls as [|a r IH]; simpl; intros H; [lia|].
  destruct (f a) eqn:E.
  - destruct IH as [u [x [Hu Hx]]]; [lia|]. exists (S u), x. auto.
  - exists 0%nat, a. split; [reflexivity|lia].
Qed.

(* ---------- the invariant ---------- *)
Definition pcof (ls : list loc) (u : nat) : pc :=
  match nth_error ls u with Some l => at_ l | None => Idle end.
Lemma pcof_upd ls t l l' u : nth_error ls t = Some l ->
  pcof (upd ls t l') u = if Nat.eqb u t then at_ l' else pcof ls u.
Proof.
  intros H. unfold pcof. destruct (Nat.eqb_spec u t) as [->|Hne].
  - rewrite (nth_upd_eq _ _ _ _ H). reflexivity.
  - rewrite nth_upd_ne by auto. reflexivity.
Qed.
Lemma pcof_at ls t l : nth_error ls t = Some l -> pcof ls t = at_ l.
Proof. intros H. unfold pcof. rewrite H. reflexivity. Qed.
Arguments pcof : simpl never.

(* per-thread clauses; a = arr l is the number of arrivals thread u has made *)
Record TInv (g : glob) (u : nat) (l : loc) : Prop := {
  T_le    : Z.of_nat (arr l) <= generation g + 1;
  T_ge    : dropped l = false -> generation g <= Z.of_nat (arr l);
  T_W     : Z.of_nat (arr l) = generation g + 1 -> waiting (at_ l) = true;
  T_lgen  : waiting (at_ l) = true -> lgen l = Z.of_nat (arr l) - 1;
  T_sleep : at_ l = B_sleep -> Z.of_nat (arr l) = generation g + 1;
  T_ntfd  : at_ l = B_woken -> ~ In u (sleepers g) -> Z.of_nat (arr l) <= generation g;
  T_cpos  : Z.of_nat (arr l) = generation g + 1 -> 1 <= count g;
  T_drop  : dropped l = true -> todo l = [];
  T_wfp   : wf_thread (todo l) = true;
  T_len   : length (prog0 l) = (arr l + length (todo l))%nat;
  T_hasdrop : dropped l = false -> has_drop (prog0 l) = has_drop (todo l)
}.

Record Inv (g : glob) (ls : list loc) : Prop := {
  I_thr   : threshold g = Z.of_nat (num_active ls);
  I_cnt   : count g = Z.of_nat (num_pending (generation g) ls);
  I_cpos  : 1 <= threshold g -> 1 <= count g;
  I_wr    : wrapped g = false;
  I_owner : forall u, holds (pcof ls u) = true -> mtx g = Some u;
  I_held  : forall a, mtx g = Some a -> holds (pcof ls a) = true;
  I_slprs : forall u, In u (sleepers g) -> is_woken (pcof ls u) = true;
  I_wake  : forall u l, nth_error ls u = Some l -> In u (sleepers g) -> lgen l <> generation g ->
            exists a, mtx g = Some a /\ is_notify (pcof ls a) = true;
  I_ntfy  : forall a, is_notify (pcof ls a) = true ->
            forall u l, nth_error ls u = Some l -> Z.of_nat (arr l) <= generation g;
  I_thrd  : forall u l, nth_error ls u = Some l -> TInv g u l
}.

(* the per-thread clauses of a thread that does not move survive a step that keeps the generation *)
Lemma TInv_stable g g' u l : generation g' = generation g -> (1 <= count g -> 1 <= count g') ->
  (~ In u (sleepers g') -> ~ In u (sleepers g) \/ Z.of_nat (arr l) <= generation g) ->
  TInv g u l -> TInv g' u l.
Proof.
  intros Hg Hc Hs [].
  constructor; rewrite ?Hg; auto.
  intros Hw Hn. destruct (Hs Hn); auto.
Qed.
