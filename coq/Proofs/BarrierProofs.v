(* Invariants and progress facts for the Barrier model (property C09). *)
From Coq Require Import List Arith ZArith Lia Bool.
Import ListNotations.
From GV Require Import Sched Events BarrierModel.
Local Open Scope Z_scope.

Notation sysB := (sys glob loc).
Notation runB := (run glob loc tstep).
Notation stepB := (step glob loc tstep).
Notation enabledB := (enabled glob loc tstep).
Notation quiescentB := (quiescent glob loc tstep).

(* ---------- pc classification ---------- *)
Definition holds (p : pc) : bool := match p with B_notify | B_sleep | B_unlock => true | _ => false end.
Definition waiting (p : pc) : bool := match p with B_sleep | B_woken => true | _ => false end.
Definition is_woken (p : pc) : bool := match p with B_woken => true | _ => false end.
Definition is_notify (p : pc) : bool := match p with B_notify => true | _ => false end.

(* operations whose arrival has not been made yet *)
Definition todo (l : loc) : list op := match at_ l with B_lock k => k :: prog l | _ => prog l end.

(* participants that have not dropped / that have not dropped and not yet arrived in generation gen *)
Definition active (l : loc) : nat := if dropped l then 0%nat else 1%nat.
Definition pending (gen : Z) (l : loc) : nat :=
  if dropped l then 0%nat else if Z.of_nat (arr l) =? gen + 1 then 0%nat else 1%nat.
Definition num_active (ls : list loc) : nat := list_sum (map active ls).
Definition num_pending (gen : Z) (ls : list loc) : nat := list_sum (map (pending gen) ls).

Lemma mem_In t l : mem t l = true <-> In t l.
Proof.
  unfold mem. rewrite existsb_exists. split.
  - intros [x [Hx He]]. apply Nat.eqb_eq in He. subst. exact Hx.
  - intros H. exists t. split; [exact H|apply Nat.eqb_refl].
Qed.
Lemma In_rem t u l : In u (rem t l) <-> In u l /\ u <> t.
Proof.
  unfold rem. rewrite filter_In. split; intros [H1 H2]; split; auto.
  - intros ->. rewrite Nat.eqb_refl in H2. discriminate.
  - apply negb_true_iff. apply Nat.eqb_neq. auto.
Qed.

(* ---------- sums over the thread list ---------- *)
Lemma sum_ge_nth {A} (f : A -> nat) (ls : list A) t x : nth_error ls t = Some x -> (f x <= list_sum (map f ls))%nat.
Proof.
  revert t; induction ls as [|h r IH]; destruct t; simpl; intros H; try discriminate.
  - inversion H; subst. lia.
  - specialize (IH _ H). lia.
Qed.
Lemma sum_single {A} (f : A -> nat) (ls : list A) t x : nth_error ls t = Some x ->
  list_sum (map f ls) = f x -> forall u y, u <> t -> nth_error ls u = Some y -> f y = 0%nat.
Proof.
  revert t; induction ls as [|h r IH]; destruct t; simpl; intros H E u y Hne Hu; try discriminate.
  - inversion H; subst. destruct u; [congruence|]. simpl in Hu.
    pose proof (sum_ge_nth f r u y Hu). lia.
  - destruct u; simpl in Hu.
    + inversion Hu; subst. pose proof (sum_ge_nth f r t x H). lia.
    + pose proof (sum_ge_nth f r t x H). eapply (IH t H); [lia| |exact Hu]. congruence.
Qed.
Lemma sum_ext_nth {A} (f h : A -> nat) (ls : list A) :
  (forall u x, nth_error ls u = Some x -> f x = h x) -> list_sum (map f ls) = list_sum (map h ls).
Proof.
  induction ls as [|a r IH]; simpl; intros H; [reflexivity|].
  rewrite (H 0%nat a eq_refl). rewrite IH; [reflexivity|]. intros u x Hu. apply (H (S u) x Hu).
Qed.
Lemma sum_pos_ex {A} (f : A -> nat) (ls : list A) : (1 <= list_sum (map f ls))%nat ->
  exists u x, nth_error ls u = Some x /\ (1 <= f x)%nat.
Proof.
  induction ls as [|a r IH]; simpl; intros H; [lia|].
  destruct (f a) eqn:E.
  - destruct IH as [u [x [Hu Hx]]]; [lia|]. exists (S u), x. auto.
  - exists 0%nat, a. split; [reflexivity|lia].
Qed.

(* ---------- the invariant ---------- *)
Definition pcof (ls : list loc) (u : nat) : pc :=
  match nth_error ls u with Some l => at_ l | None => Idle end.
Lemma pcof_upd ls t l l' u : nth_error ls t = Some l ->
  pcof (upd ls t l') u = if Nat.eqb u t then at_ l' else pcof ls u.
Proof.
  intros H. unfold pcof. destruct (Nat.eqb_spec u t) as [->|Hne].
  - rewrite (nth_upd_eq _ _ _ _ H). reflexivity.
  - rewrite nth_upd_ne by auto. reflexivity.
Qed.
Lemma pcof_at ls t l : nth_error ls t = Some l -> pcof ls t = at_ l.
Proof. intros H. unfold pcof. rewrite H. reflexivity. Qed.
Arguments pcof : simpl never.

(* per-thread clauses; a = arr l is the number of arrivals thread u has made *)
Record TInv (g : glob) (u : nat) (l : loc) : Prop := {
  T_le    : Z.of_nat (arr l) <= generation g + 1;
  T_ge    : dropped l = false -> generation g <= Z.of_nat (arr l);
  T_W     : Z.of_nat (arr l) = generation g + 1 -> waiting (at_ l) = true;
  T_lgen  : waiting (at_ l) = true -> lgen l = Z.of_nat (arr l) - 1;
  T_sleep : at_ l = B_sleep -> Z.of_nat (arr l) = generation g + 1;
  T_ntfd  : at_ l = B_woken -> ~ In u (sleepers g) -> Z.of_nat (arr l) <= generation g;
  T_cpos  : Z.of_nat (arr l) = generation g + 1 -> 1 <= count g;
  T_drop  : dropped l = true -> todo l = [];
  T_wfp   : wf_thread (todo l) = true;
  T_len   : length (prog0 l) = (arr l + length (todo l))%nat;
  T_hasdrop : dropped l = false -> has_drop (prog0 l) = has_drop (todo l)
}.

Record Inv (g : glob) (ls : list loc) : Prop := {
  I_thr   : threshold g = Z.of_nat (num_active ls);
  I_cnt   : count g = Z.of_nat (num_pending (generation g) ls);
  I_cpos  : 1 <= threshold g -> 1 <= count g;
  I_wr    : wrapped g = false;
  I_owner : forall u, holds (pcof ls u) = true -> mtx g = Some u;
  I_held  : forall a, mtx g = Some a -> holds (pcof ls a) = true;
  I_slprs : forall u, In u (sleepers g) -> is_woken (pcof ls u) = true;
  I_wake  : forall u l, nth_error ls u = Some l -> In u (sleepers g) -> lgen l <> generation g ->
            exists a, mtx g = Some a /\ is_notify (pcof ls a) = true;
  I_ntfy  : forall a, is_notify (pcof ls a) = true ->
            forall u l, nth_error ls u = Some l -> Z.of_nat (arr l) <= generation g;
  I_thrd  : forall u l, nth_error ls u = Some l -> TInv g u l
}.

(* the per-thread clauses of a thread that does not move survive a step that keeps the generation *)
Lemma TInv_stable g g' u l : generation g' = generation g -> (1 <= count g -> 1 <= count g') ->
  (~ In u (sleepers g') -> ~ In u (sleepers g) \/ Z.of_nat (arr l) <= generation g) ->
  TInv g u l -> TInv g' u l.
Proof.
  intros Hg Hc Hs [].
  constructor; rewrite ?Hg; auto.
  intros Hw Hn. destruct (Hs Hn); auto.
Qed.

(* ---------- initial state ---------- *)
Lemma sum_const_one {A} (f : A -> nat) (ls : list A) : (forall x, In x ls -> f x = 1%nat) ->
  list_sum (map f ls) = length ls.
Proof.
  induction ls as [|a r IH]; simpl; intros H; [reflexivity|].
  rewrite (H a (or_introl eq_refl)), IH; auto.
Qed.

Lemma Inv_init n progs : wf_prog n progs = true -> Inv (gl (init n progs)) (thr (init n progs)).
Proof.
  intros Hwf. unfold wf_prog in Hwf. apply andb_true_iff in Hwf as [Hwf Hth]. apply andb_true_iff in Hwf as [Hn Hm].
  apply Z.eqb_eq in Hn. apply Z.ltb_lt in Hm. rewrite forallb_forall in Hth.
  assert (Hw : wrap n = n) by (unfold wrap; apply Z.mod_small; lia).
  assert (P : forall u, pcof (map (fun p => Loc p Idle 0 0 false p) progs) u = Idle).
  { intros u. unfold pcof. rewrite nth_error_map. destruct (nth_error progs u); reflexivity. }
  unfold init; cbn [gl thr]. constructor; cbn [threshold count generation mtx sleepers wrapped]; rewrite ?Hw.
  - unfold num_active. rewrite sum_const_one, map_length; [lia|].
    intros x Hx. apply in_map_iff in Hx as [p [<- _]]. reflexivity.
  - unfold num_pending. rewrite sum_const_one, map_length; [lia|].
    intros x Hx. apply in_map_iff in Hx as [p [<- _]]. reflexivity.
  - auto.
  - reflexivity.
  - intros u. rewrite P. discriminate.
  - discriminate.
  - contradiction.
  - contradiction.
  - intros a. rewrite P. discriminate.
  - intros u l Hl. rewrite nth_error_map in Hl. destruct (nth_error progs u) as [p|] eqn:Hp; [|discriminate].
    inversion Hl; subst l. apply nth_error_In in Hp. specialize (Hth p Hp).
    constructor; cbn; try lia; try discriminate; auto.
Qed.

(* ---------- one step preserves the invariant ---------- *)
Lemma sums_same ls t l l' : nth_error ls t = Some l -> dropped l' = dropped l -> arr l' = arr l ->
  num_active (upd ls t l') = num_active ls /\ forall gen, num_pending gen (upd ls t l') = num_pending gen ls.
Proof.
  intros Hl Hd Ha. split; [|intros gen].
  - unfold num_active. pose proof (sum_upd active ls t l l' Hl) as H. unfold active in H at 2 4. rewrite Hd in H. lia.
  - unfold num_pending. pose proof (sum_upd (pending gen) ls t l l' Hl) as H. unfold pending in H at 2 4.
    rewrite Hd, Ha in H. lia.
Qed.

Lemma dec_pos x : 1 <= x -> dec x = x - 1 /\ (x =? 0) = false.
Proof. intros H. unfold dec. destruct (Z.eqb_spec x 0); [lia|auto]. Qed.

Ltac simp_loc := unfold todo in *;
  cbn [at_ prog lgen arr dropped prog0 waiting threshold count generation mtx sleepers wrapped set_mtx set_slp] in *.

Ltac mx Hl Hp HO HH HSP t :=
  let u := fresh "u" in
  intros u; rewrite (pcof_upd _ _ _ _ _ Hl); cbn [at_];
  pose proof (HO t); pose proof (HH t); pose proof (HSP t);
  pose proof (HO u); pose proof (HH u); pose proof (HSP u);
  destruct (Nat.eqb_spec u t) as [->|?]; cbn; intros; rewrite ?Hp in *; cbn in *;
  try match goal with H : In _ (rem _ _) |- _ => apply In_rem in H; destruct H end;
  intuition (discriminate || congruence || eauto).

Lemma Inv_step : forall g ls t c l g' l' es,
  Inv g ls -> nth_error ls t = Some l -> tstep t c g l = Some (g', l', es) -> Inv g' (upd ls t l').
Proof.
  intros g ls t c l g' l' es HI Hl Hs.
  pose proof (I_thrd _ _ HI t l Hl) as HT.
  pose proof (pcof_at _ _ _ Hl) as Hp.
  destruct HI as [Hthr Hcnt Hcpos Hwr HO HH HSP HWK HNY HTD].
  destruct l as [pr p lg ar dr p0]. cbn [at_] in Hp.
  unfold tstep in Hs; cbn [at_ prog lgen arr dropped prog0] in Hs.
  destruct p.
  - (* Idle: invoke *)
    destruct pr as [|o r]; [discriminate|]. inversion Hs; subst g' l' es; clear Hs.
    destruct (sums_same ls t _ (Loc r (B_lock o) lg ar dr p0) Hl eq_refl eq_refl) as [Ea Ep].
    constructor; rewrite ?Ea, ?Ep; auto.
    + mx Hl Hp HO HH HSP t.
    + mx Hl Hp HO HH HSP t.
    + mx Hl Hp HO HH HSP t.
    + intros u x Hu Hin Hne. apply nth_upd in Hu as [[<- [-> _]] | [Hne' Hu]].
      * specialize (HSP t Hin). rewrite Hp in HSP. discriminate.
      * destruct (HWK u x Hu Hin Hne) as [a [Ha Hn]]. exists a. split; auto.
        rewrite (pcof_upd _ _ _ _ _ Hl). destruct (Nat.eqb_spec a t) as [->|]; auto. rewrite Hp in Hn. discriminate.
    + intros a Ha u x Hu. rewrite (pcof_upd _ _ _ _ _ Hl) in Ha.
      destruct (Nat.eqb_spec a t) as [E|E]; [discriminate|].
      apply nth_upd in Hu as [[<- [-> _]] | [Hne' Hu]].
      * apply (HNY a Ha t _ Hl).
      * apply (HNY a Ha u x Hu).
    + intros u x Hu. apply nth_upd in Hu as [[<- [-> _]] | [Hne' Hu]]; [|auto].
      destruct HT. constructor; simp_loc; auto; try discriminate.
  - (* B_lock: the arrival *)
    destruct (mtx g) eqn:Hm; [discriminate|].
    destruct HT as [Tle Tge TW Tlg Tsl Tnt Tcp Tdr Twf Tln Thd]. simp_loc.
    assert (Hdr : dr = false) by (destruct dr; auto; specialize (Tdr eq_refl); discriminate).
    assert (Har : Z.of_nat ar = generation g).
    { specialize (Tge Hdr). destruct (Z.eq_dec (Z.of_nat ar) (generation g + 1)) as [E|E]; [specialize (TW E); discriminate|lia]. }
    subst dr.
    assert (Hact : active (Loc pr (B_lock k) lg ar false p0) = 1%nat) by reflexivity.
    assert (Hpen : pending (generation g) (Loc pr (B_lock k) lg ar false p0) = 1%nat).
    { unfold pending; cbn. destruct (Z.eqb_spec (Z.of_nat ar) (generation g + 1)); [lia|reflexivity]. }
    pose proof (sum_ge_nth active ls t _ Hl) as Ga. pose proof (sum_ge_nth (pending (generation g)) ls t _ Hl) as Gp.
    rewrite Hact in Ga. rewrite Hpen in Gp.
    assert (Ht1 : 1 <= threshold g) by (unfold num_active in Hthr; lia).
    assert (Hc1 : 1 <= count g) by (unfold num_pending in Hcnt; lia).
    destruct (dec_pos _ Ht1) as [Dt Zt]. destruct (dec_pos _ Hc1) as [Dc Zc].
    rewrite Dc, Zc, Hwr in Hs. unfold pred in Hs. cbn [generation] in Hs. rewrite Z.eqb_refl in Hs. cbn [negb] in Hs.
    assert (Hnoh : forall u, holds (pcof ls u) = true -> False) by (intros u Hu; specialize (HO u Hu); congruence).
    assert (Hnos : forall u x, u <> t -> nth_error ls u = Some x -> at_ x = B_sleep -> False).
    { intros u x _ Hu Hx. apply (Hnoh u). rewrite (pcof_at _ _ _ Hu), Hx. reflexivity. }
    destruct (Z.eqb_spec (count g - 1) 0) as [Ec|Ec].
    + (* the last arriver: bump, reset *)
      assert (Hoth : forall u x, u <> t -> nth_error ls u = Some x -> dropped x = true \/ Z.of_nat (arr x) = generation g + 1).
      { intros u x Hne Hu. assert (E1 : list_sum (map (pending (generation g)) ls) = pending (generation g) (Loc pr (B_lock k) lg ar false p0)).
        { rewrite Hpen. unfold num_pending in Hcnt. lia. }
        pose proof (sum_single _ ls t _ Hl E1 u x Hne Hu) as Z0. unfold pending in Z0.
        destruct (dropped x); [left; reflexivity|]. destruct (Z.eqb_spec (Z.of_nat (arr x)) (generation g + 1)); [right; assumption|discriminate]. }
      assert (Hpa : forall l1, Z.of_nat (arr l1) = generation g + 1 ->
                num_pending (generation g + 1) (upd ls t l1) = num_active (upd ls t l1)).
      { intros l1 Hl1. apply sum_ext_nth. intros u x Hu. unfold pending, active.
        destruct (dropped x); [reflexivity|].
        apply nth_upd in Hu as [[<- [-> _]] | [Hne' Hu]].
        - destruct (Z.eqb_spec (Z.of_nat (arr l1)) (generation g + 1 + 1)); [lia|reflexivity].
        - pose proof (T_le _ _ _ (HTD u x Hu)). destruct (Z.eqb_spec (Z.of_nat (arr x)) (generation g + 1 + 1)); [lia|reflexivity]. }
      destruct k; rewrite ?Dt in Hs; inversion Hs; subst g' l' es; clear Hs.
      all: match goal with |- Inv _ (upd _ _ ?l1) =>
             pose proof (sum_upd active ls t _ l1 Hl) as Sa; rewrite Hact in Sa;
             (let v := eval cbv in (active l1) in change (active l1) with v in Sa);
             pose proof (Hpa l1) as Sp; cbn [arr] in Sp; specialize (Sp ltac:(lia)) end.
      all: constructor; simp_loc; auto; rewrite ?Sp; try (unfold num_active in *; lia).
      all: try (mx Hl Hp HO HH HSP t; fail).
      all: try (intros u x _ _ _; exists t; split; [reflexivity|]; rewrite (pcof_upd _ _ _ _ _ Hl), Nat.eqb_refl; reflexivity).
      all: try (intros a _ u x Hu; apply nth_upd in Hu as [[<- [-> _]] | [Hne' Hu]]; [cbn; lia|];
                pose proof (T_le _ _ _ (HTD u x Hu)); lia).
      all: intros u x Hu; apply nth_upd in Hu as [[<- [-> _]] | [Hne' Hu]].
      all: try (cbn [wf_thread length] in *; unfold has_drop in *; cbn [existsb is_drop orb] in *;
                constructor; simp_loc; intros; try discriminate; try lia; auto;
                try (destruct pr; [reflexivity|discriminate Twf]); fail).
      all: try (destruct (HTD u x Hu) as [Ule Uge UW Ulg Usl Unt Ucp Udr Uwf Uln Uhd];
                destruct (Hoth u x ltac:(auto) Hu) as [Hd|Ha];
                constructor; simp_loc; intros; auto; try congruence; try lia;
                try (exfalso; eapply Hnos; eauto; fail); fail).
    + (* not the last: goes to sleep *)
      destruct k; rewrite ?Dt in Hs; inversion Hs; subst g' l' es; clear Hs.
      all: match goal with |- Inv _ (upd _ _ ?l1) =>
             pose proof (sum_upd active ls t _ l1 Hl) as Sa; rewrite Hact in Sa;
             (let v := eval cbv in (active l1) in change (active l1) with v in Sa);
             pose proof (sum_upd (pending (generation g)) ls t _ l1 Hl) as Sp; rewrite Hpen in Sp;
             assert (Hp1 : pending (generation g) l1 = 0%nat)
               by (unfold pending; cbn [dropped arr];
                   first [reflexivity | destruct (Z.eqb_spec (Z.of_nat (S ar)) (generation g + 1)); [reflexivity|lia]]);
             rewrite Hp1 in Sp end.
      all: constructor; simp_loc; auto; try (unfold num_active, num_pending in *; lia).
      all: try (mx Hl Hp HO HH HSP t; fail).
      all: try (intros u x Hu Hin Hne; exfalso; apply nth_upd in Hu as [[<- [-> _]] | [Hne' Hu]];
                [specialize (HSP t Hin); rewrite Hp in HSP; discriminate
                |destruct (HWK u x Hu Hin Hne) as [a [Ha _]]; congruence]; fail).
      all: try (intros a Ha; exfalso; rewrite (pcof_upd _ _ _ _ _ Hl) in Ha;
                destruct (Nat.eqb_spec a t) as [E|E]; [discriminate|];
                apply (Hnoh a); destruct (pcof ls a); try discriminate; reflexivity).
      all: intros u x Hu; apply nth_upd in Hu as [[<- [-> _]] | [Hne' Hu]].
      all: try (cbn [wf_thread length] in *; unfold has_drop in *; cbn [existsb is_drop orb] in *;
                constructor; simp_loc; intros; try discriminate; try lia; auto;
                try (destruct pr; [reflexivity|discriminate Twf]); fail).
      all: apply (TInv_stable g); auto; simp_loc; intros; lia.
  - (* B_notify *)
    inversion Hs; subst g' l' es; clear Hs.
    destruct (sums_same ls t _ (Loc pr B_unlock lg ar dr p0) Hl eq_refl eq_refl) as [Ea Ep].
    constructor; simp_loc; rewrite ?Ea, ?Ep; auto.
    + mx Hl Hp HO HH HSP t.
    + mx Hl Hp HO HH HSP t.
    + intros u x _ [].
    + intros a Ha u x Hu. rewrite (pcof_upd _ _ _ _ _ Hl) in Ha.
      destruct (Nat.eqb_spec a t) as [E|E]; [discriminate|].
      apply nth_upd in Hu as [[<- [-> _]] | [Hne' Hu]].
      * apply (HNY a Ha t _ Hl).
      * apply (HNY a Ha u x Hu).
    + intros u x Hu. apply nth_upd in Hu as [[<- [-> _]] | [Hne' Hu]].
      * destruct HT. constructor; simp_loc; auto; try discriminate.
      * apply (TInv_stable g); auto. intros _. right. eapply (HNY t); [rewrite Hp; reflexivity|exact Hu].
  - (* B_sleep *)
    inversion Hs; subst g' l' es; clear Hs.
    destruct (sums_same ls t _ (Loc pr B_woken lg ar dr p0) Hl eq_refl eq_refl) as [Ea Ep].
    assert (Hm : mtx g = Some t) by (apply HO; rewrite Hp; reflexivity).
    constructor; simp_loc; rewrite ?Ea, ?Ep; auto.
    + mx Hl Hp HO HH HSP t.
    + discriminate.
    + intros u [<-|Hin]; rewrite (pcof_upd _ _ _ _ _ Hl).
      * rewrite Nat.eqb_refl. reflexivity.
      * destruct (Nat.eqb_spec u t); [reflexivity|auto].
    + intros u x Hu Hin Hne. exfalso. apply nth_upd in Hu as [[<- [-> _]] | [Hne' Hu]].
      * destruct HT as [_ _ _ Tlg Tsl _ _ _ _ _ _]. simp_loc. specialize (Tlg eq_refl). specialize (Tsl eq_refl). lia.
      * destruct Hin as [E|Hin]; [congruence|]. destruct (HWK u x Hu Hin Hne) as [a [Ha Hn]].
        assert (a = t) by congruence. subst a. rewrite Hp in Hn. discriminate.
    + intros a Ha u x Hu. rewrite (pcof_upd _ _ _ _ _ Hl) in Ha.
      destruct (Nat.eqb_spec a t) as [E|E]; [discriminate|].
      apply nth_upd in Hu as [[<- [-> _]] | [Hne' Hu]].
      * apply (HNY a Ha t _ Hl).
      * apply (HNY a Ha u x Hu).
    + intros u x Hu. apply nth_upd in Hu as [[<- [-> _]] | [Hne' Hu]].
      * destruct HT. constructor; simp_loc; auto; try discriminate. intros _ Hn. exfalso. apply Hn. left. reflexivity.
      * apply (TInv_stable g); auto. simp_loc. intros Hn. left. intros Hin. apply Hn. right. exact Hin.
  - (* B_woken *)
    destruct (negb (mem t (sleepers g)) || Nat.eqb c 1) eqn:Hen; [|discriminate].
    destruct (mtx g) eqn:Hm; [discriminate|].
    inversion Hs; subst g' l' es; clear Hs.
    assert (Hnoh : forall u, holds (pcof ls u) = true -> False) by (intros u Hu; specialize (HO u Hu); congruence).
    match goal with |- Inv _ (upd _ _ ?l1) => destruct (sums_same ls t _ l1 Hl eq_refl eq_refl) as [Ea Ep] end.
    constructor; simp_loc; rewrite ?Ea, ?Ep; auto.
    + intros u. rewrite (pcof_upd _ _ _ _ _ Hl). destruct (Nat.eqb_spec u t) as [->|Hne]; [reflexivity|].
      intros Hu. exfalso. eauto.
    + intros a Ha. inversion Ha; subst a. rewrite (pcof_upd _ _ _ _ _ Hl), Nat.eqb_refl. cbn [at_].
      destruct (pred lg g); reflexivity.
    + intros u Hin. apply In_rem in Hin as [Hin Hne]. rewrite (pcof_upd _ _ _ _ _ Hl).
      destruct (Nat.eqb_spec u t); [contradiction|auto].
    + intros u x Hu Hin Hne. exfalso. apply In_rem in Hin as [Hin Hne2].
      apply nth_upd in Hu as [[<- [-> _]] | [Hne' Hu]]; [congruence|].
      destruct (HWK u x Hu Hin Hne) as [a [Ha _]]. congruence.
    + intros a Ha. exfalso. rewrite (pcof_upd _ _ _ _ _ Hl) in Ha.
      destruct (Nat.eqb_spec a t) as [E|E]; [cbn [at_] in Ha; destruct (pred lg g); discriminate|].
      apply (Hnoh a). destruct (pcof ls a); try discriminate; reflexivity.
    + intros u x Hu. apply nth_upd in Hu as [[<- [-> _]] | [Hne' Hu]].
      * destruct HT as [Tle Tge TW Tlg Tsl Tnt Tcp Tdr Twf Tln Thd]. simp_loc. specialize (Tlg eq_refl).
        unfold pred. destruct (Z.eqb_spec lg (generation g)) as [Eg|Eg]; cbn [negb].
        -- constructor; simp_loc; auto; try discriminate. intros _. lia.
        -- constructor; simp_loc; auto; try discriminate. intros Ea'. exfalso. lia.
      * apply (TInv_stable g); auto. simp_loc. intros Hn. left. intros Hin. apply Hn. apply In_rem. auto.
  - (* B_unlock *)
    inversion Hs; subst g' l' es; clear Hs.
    destruct (sums_same ls t _ (Loc pr Idle lg ar dr p0) Hl eq_refl eq_refl) as [Ea Ep].
    assert (Hm : mtx g = Some t) by (apply HO; rewrite Hp; reflexivity).
    constructor; simp_loc; rewrite ?Ea, ?Ep; auto.
    + mx Hl Hp HO HH HSP t.
    + discriminate.
    + mx Hl Hp HO HH HSP t.
    + intros u x Hu Hin Hne. exfalso. apply nth_upd in Hu as [[<- [-> _]] | [Hne' Hu]].
      * specialize (HSP t Hin). rewrite Hp in HSP. discriminate.
      * destruct (HWK u x Hu Hin Hne) as [a [Ha Hn]].
        assert (a = t) by congruence. subst a. rewrite Hp in Hn. discriminate.
    + intros a Ha u x Hu. rewrite (pcof_upd _ _ _ _ _ Hl) in Ha.
      destruct (Nat.eqb_spec a t) as [E|E]; [discriminate|].
      apply nth_upd in Hu as [[<- [-> _]] | [Hne' Hu]].
      * apply (HNY a Ha t _ Hl).
      * apply (HNY a Ha u x Hu).
    + intros u x Hu. apply nth_upd in Hu as [[<- [-> _]] | [Hne' Hu]].
      * destruct HT. constructor; simp_loc; auto; try discriminate.
      * apply (TInv_stable g); auto.
Qed.

(* ---------- reachable states ---------- *)
Definition R (n : Z) (progs : list (list op)) (s : sysB) : Prop := reachable glob loc tstep (init n progs) s.

Lemma R_inv n progs s : wf_prog n progs = true -> R n progs s -> Inv (gl s) (thr s).
Proof. intros Hwf H. eapply reachable_inv; [apply Inv_step|apply Inv_init; exact Hwf|exact H]. Qed.

Ltac step_cases Hs :=
  unfold tstep in Hs; cbn [at_ prog] in Hs;
  repeat match type of Hs with
         | context [match ?x with _ => _ end] => destruct x eqn:?; cbn [at_ prog] in Hs
         | context [if ?x then _ else _] => destruct x eqn:?; cbn [at_ prog] in Hs
         end;
  try discriminate; inversion Hs; subst; clear Hs.

(* the ghost prog0 is the thread's client program *)
Lemma R_prog0 n progs s u l : R n progs s -> nth_error (thr s) u = Some l -> nth_error progs u = Some (prog0 l).
Proof.
  intros H. revert u l.
  refine (reachable_inv glob loc tstep
            (fun _ ls => forall u l, nth_error ls u = Some l -> nth_error progs u = Some (prog0 l)) _ (init n progs) s _ H).
  - intros g ls t c l g' l' es IH Hl Hs u x Hu.
    apply nth_upd in Hu as [[<- [-> _]] | [Hne Hu]]; [|auto].
    rewrite (IH t l Hl). f_equal. destruct l as [pr p lg ar dr p0]. step_cases Hs; reflexivity.
  - cbn. intros u l Hl. rewrite nth_error_map in Hl. destruct (nth_error progs u); [|discriminate].
    inversion Hl; subst. reflexivity.
Qed.

(* arr counts the operations of the client program whose arrival has been made *)
Lemma arrivals_count_ops n progs s u l : wf_prog n progs = true -> R n progs s -> nth_error (thr s) u = Some l ->
  nth_error progs u = Some (prog0 l) /\ length (prog0 l) = (arr l + length (todo l))%nat.
Proof.
  intros Hwf HR Hl. split; [eapply R_prog0; eauto|].
  apply (T_len _ _ _ (I_thrd _ _ (R_inv _ _ _ Hwf HR) u l Hl)).
Qed.

(* lGen is read under the mutex, at the arrival: a thread inside the wait loop has lgen = arr - 1,
   and it is waiting for the current generation exactly when arr = generation + 1 *)
Lemma lgen_is_arrival n progs s u l : wf_prog n progs = true -> R n progs s -> nth_error (thr s) u = Some l ->
  waiting (at_ l) = true ->
  lgen l = Z.of_nat (arr l) - 1 /\ Z.of_nat (arr l) <= generation (gl s) + 1 /\ (lgen l = generation (gl s) <-> Z.of_nat (arr l) = generation (gl s) + 1).
Proof.
  intros Hwf HR Hl Hw. pose proof (I_thrd _ _ (R_inv _ _ _ Hwf HR) u l Hl) as [Tle _ _ Tlg _ _ _ _ _ _ _].
  specialize (Tlg Hw). repeat split; auto; lia.
Qed.

(* ---------- C09, safety ---------- *)
(* the step that emits the return event of a wait is the unlock step *)
Lemma ret_is_unlock t c g l g' l' es : tstep t c g l = Some (g', l', es) -> In ret_ev es -> at_ l = B_unlock.
Proof.
  intros Hs Hret. destruct l as [pr p lg ar dr p0]. step_cases Hs; cbn in Hret;
    repeat (destruct Hret as [Hret|Hret]; try discriminate); try contradiction; reflexivity.
Qed.

Lemma wait_returns_after_all n progs s t c l g' l' es :
  wf_prog n progs = true -> R n progs s -> nth_error (thr s) t = Some l ->
  tstep t c (gl s) l = Some (g', l', es) -> In ret_ev es ->
  forall u lu, nth_error (thr s) u = Some lu ->
    (arr l <= arr lu)%nat \/ (dropped lu = true /\ (arr lu < arr l)%nat).
Proof.
  intros Hwf HR Hl Hs Hret u lu Hu.
  pose proof (ret_is_unlock _ _ _ _ _ _ _ Hs Hret) as Hpc.
  pose proof (R_inv _ _ _ Hwf HR) as HI.
  pose proof (I_thrd _ _ HI t l Hl) as [Tle _ TW _ _ _ _ _ _ _ _].
  pose proof (I_thrd _ _ HI u lu Hu) as [_ Uge _ _ _ _ _ _ _ _ _].
  rewrite Hpc in TW. cbn in TW.
  assert (Z.of_nat (arr l) <= generation (gl s)).
  { destruct (Z.eq_dec (Z.of_nat (arr l)) (generation (gl s) + 1)) as [E|E]; [specialize (TW E); discriminate|lia]. }
  destruct (dropped lu) eqn:Hd.
  - destruct (le_lt_dec (arr l) (arr lu)); [left; assumption|right; split; [reflexivity|assumption]].
  - left. specialize (Uge eq_refl). lia.
Qed.

(* ---------- C09, the drop / count bookkeeping ---------- *)
Lemma pending_le_active gen l : (pending gen l <= active l)%nat.
Proof. unfold pending, active. destruct (dropped l); [lia|]. destruct (_ =? _); lia. Qed.

Lemma drop_counts n progs s : wf_prog n progs = true -> R n progs s ->
  threshold (gl s) = Z.of_nat (num_active (thr s)) /\
  count (gl s) = Z.of_nat (num_pending (generation (gl s)) (thr s)) /\
  0 <= count (gl s) <= threshold (gl s) /\
  (1 <= threshold (gl s) -> 1 <= count (gl s)) /\
  wrapped (gl s) = false.
Proof.
  intros Hwf HR. pose proof (R_inv _ _ _ Hwf HR) as [Hthr Hcnt Hcpos Hwr _ _ _ _ _ _].
  repeat split; auto; try lia.
  rewrite Hthr, Hcnt. apply inj_le. apply sum_mono. intros x _. apply pending_le_active.
Qed.

(* what one arrival does: the anchored mechanism, with the unsigned decrements never wrapping *)
Lemma arrival_step n progs s t c l k g' l' es :
  wf_prog n progs = true -> R n progs s -> nth_error (thr s) t = Some l -> at_ l = B_lock k ->
  tstep t c (gl s) l = Some (g', l', es) ->
  arr l' = S (arr l) /\ lgen l' = generation (gl s) /\ dropped l = false /\ dropped l' = is_drop k /\
  Z.of_nat (arr l) = generation (gl s) /\
  threshold g' = threshold (gl s) - (if is_drop k then 1 else 0) /\ 0 <= threshold g' /\
  ((count (gl s) = 1 /\ generation g' = generation (gl s) + 1 /\ count g' = threshold g' /\ at_ l' = B_notify) \/
   (1 < count (gl s) /\ generation g' = generation (gl s) /\ count g' = count (gl s) - 1 /\ at_ l' = B_sleep)).
Proof.
  intros Hwf HR Hl Hpc Hs.
  pose proof (R_inv _ _ _ Hwf HR) as HI.
  pose proof (I_thrd _ _ HI t l Hl) as [Tle Tge TW _ _ _ _ Tdr _ _ _].
  destruct HI as [Hthr Hcnt _ _ _ _ _ _ _ _].
  destruct l as [pr p lg ar dr p0]. cbn [at_] in Hpc. subst p. unfold todo in *. cbn [at_ prog arr dropped] in *.
  assert (Hdr : dr = false) by (destruct dr; auto; specialize (Tdr eq_refl); discriminate).
  assert (Har : Z.of_nat ar = generation (gl s)).
  { specialize (Tge Hdr). destruct (Z.eq_dec (Z.of_nat ar) (generation (gl s) + 1)) as [E|E]; [specialize (TW E); discriminate|lia]. }
  subst dr.
  assert (Hpen : pending (generation (gl s)) (Loc pr (B_lock k) lg ar false p0) = 1%nat).
  { unfold pending; cbn. destruct (Z.eqb_spec (Z.of_nat ar) (generation (gl s) + 1)); [lia|reflexivity]. }
  pose proof (sum_ge_nth active _ t _ Hl) as Ga. pose proof (sum_ge_nth (pending (generation (gl s))) _ t _ Hl) as Gp.
  rewrite Hpen in Gp. change (active _) with 1%nat in Ga.
  assert (Ht1 : 1 <= threshold (gl s)) by (unfold num_active in Hthr; lia).
  assert (Hc1 : 1 <= count (gl s)) by (unfold num_pending in Hcnt; lia).
  destruct (dec_pos _ Ht1) as [Dt Zt]. destruct (dec_pos _ Hc1) as [Dc Zc].
  unfold tstep in Hs. cbn [at_ prog lgen arr dropped prog0] in Hs.
  destruct (mtx (gl s)); [discriminate|].
  rewrite Dc in Hs. unfold pred in Hs. cbn [generation] in Hs. rewrite Z.eqb_refl in Hs. cbn [negb] in Hs.
  destruct (Z.eqb_spec (count (gl s) - 1) 0) as [Ec|Ec]; destruct k; rewrite ?Dt in Hs;
    inversion Hs; subst g' l' es; cbn; repeat split; auto; try lia.
  all: try (left; repeat split; auto; lia).
  all: right; repeat split; auto; lia.
Qed.

(* ---------- C09, liveness ---------- *)
(* a thread that owns the mutex can always take its next step *)
Lemma holder_enabled n progs s a c : wf_prog n progs = true -> R n progs s -> mtx (gl s) = Some a -> enabledB s a c.
Proof.
  intros Hwf HR Hm. pose proof (R_inv _ _ _ Hwf HR) as HI.
  pose proof (I_held _ _ HI a Hm) as Hh. unfold pcof in Hh.
  destruct (nth_error (thr s) a) as [l|] eqn:Hl; [|discriminate].
  assert (exists r, tstep a c (gl s) l = Some r) as [r Hr]; [|exists l, r; auto].
  destruct l as [pr p lg ar dr p0]. cbn in Hh. unfold tstep. cbn [at_ prog].
  destruct p; try discriminate; eexists; reflexivity.
Qed.

(* no lost wake-up: a thread blocked in cv.wait whose generation has passed has been notified,
   or the owner of the mutex is the last arriver about to notify, and it can move *)
Lemma no_lost_wakeup n progs s u l : wf_prog n progs = true -> R n progs s ->
  nth_error (thr s) u = Some l -> at_ l = B_woken -> lgen l <> generation (gl s) ->
  ~ In u (sleepers (gl s)) \/
  exists a, mtx (gl s) = Some a /\ is_notify (pcof (thr s) a) = true /\ enabledB s a 0.
Proof.
  intros Hwf HR Hl Hpc Hg. destruct (in_dec Nat.eq_dec u (sleepers (gl s))) as [Hin|Hnin]; [right|left; exact Hnin].
  destruct (I_wake _ _ (R_inv _ _ _ Hwf HR) u l Hl Hin Hg) as [a [Ha Hn]].
  exists a. repeat split; auto. eapply holder_enabled; eauto.
Qed.

(* retry exit: once its generation has passed, the wake-up step of a waiter leaves the wait loop *)
Lemma woken_exits t c g l g' l' es : at_ l = B_woken -> lgen l <> generation g ->
  tstep t c g l = Some (g', l', es) -> at_ l' = B_unlock.
Proof.
  intros Hpc Hg Hs. destruct l as [pr p lg ar dr p0]. cbn in Hpc, Hg. subst p.
  unfold tstep in Hs. cbn [at_ prog lgen] in Hs.
  destruct (_ || _); [|discriminate]. destruct (mtx g); [discriminate|].
  inversion Hs; subst. cbn. unfold pred. destruct (Z.eqb_spec lg (generation g)); [contradiction|reflexivity].
Qed.
(* ... and a notified waiter is enabled as soon as the mutex is free *)
Lemma notified_enabled s t l : nth_error (thr s) t = Some l -> at_ l = B_woken ->
  ~ In t (sleepers (gl s)) -> mtx (gl s) = None -> enabledB s t 0.
Proof.
  intros Hl Hpc Hn Hm. destruct l as [pr p lg ar dr p0]. cbn in Hpc. subst p.
  eexists. unfold tstep. cbn [at_ prog lgen].
  assert (mem t (sleepers (gl s)) = false) as ->.
  { destruct (mem t (sleepers (gl s))) eqn:E; [apply mem_In in E; contradiction|reflexivity]. }
  rewrite Hm. cbn. eexists. split; [exact Hl|reflexivity].
Qed.

(* a thread in a state where nothing can move without a spurious wake-up *)
Lemma quiescent_thread n progs s t l : wf_prog n progs = true -> R n progs s -> quiescentB s ->
  nth_error (thr s) t = Some l ->
  fin l = true \/
  (at_ l = B_woken /\ In t (sleepers (gl s)) /\ lgen l = generation (gl s) /\
   Z.of_nat (arr l) = generation (gl s) + 1).
Proof.
  intros Hwf HR HQ Hl. pose proof (R_inv _ _ _ Hwf HR) as HI.
  assert (Hfree : mtx (gl s) = None).
  { destruct (mtx (gl s)) as [a|] eqn:Hm; [|reflexivity].
    exfalso. apply (HQ a 0%nat); [lia|]. eapply holder_enabled; eauto. }
  assert (Hdis : tstep t 0 (gl s) l = None).
  { destruct (tstep t 0 (gl s) l) as [r|] eqn:Hs; [|reflexivity].
    exfalso. apply (HQ t 0%nat); [lia|]. exists l, r. auto. }
  pose proof (I_thrd _ _ HI t l Hl) as [_ _ _ Tlg _ _ _ _ _ _ _].
  pose proof (I_wake _ _ HI t l Hl) as HWK.
  destruct l as [pr p lg ar dr p0]. unfold tstep in Hdis. cbn [at_ prog lgen arr] in *.
  destruct p; try discriminate; try (rewrite Hfree in Hdis; discriminate).
  - destruct pr; [left; reflexivity|discriminate].
  - rewrite Hfree in Hdis. destruct (dec (count (gl s)) =? 0); discriminate.
  - right. rewrite Hfree in Hdis. change (Nat.eqb 0 1) with false in Hdis. rewrite orb_false_r in Hdis.
    destruct (mem t (sleepers (gl s))) eqn:Hm; [|discriminate].
    apply mem_In in Hm. specialize (Tlg eq_refl).
    assert (lg = generation (gl s)).
    { destruct (Z.eq_dec lg (generation (gl s))) as [E|E]; [exact E|].
      destruct (HWK Hm E) as [a [Ha _]]. congruence. }
    repeat split; auto. lia.
Qed.

(* the shape of such a state: every thread has finished its program, or it is sleeping, not
   notified, in the current generation, and is legitimately waiting for a participant that has
   not dropped and whose program ended before making that arrival *)
Lemma quiescent_shape n progs s t l : wf_prog n progs = true -> R n progs s -> quiescentB s ->
  nth_error (thr s) t = Some l ->
  fin l = true \/
  (at_ l = B_woken /\ In t (sleepers (gl s)) /\ lgen l = generation (gl s) /\
   exists u lu, nth_error (thr s) u = Some lu /\ fin lu = true /\ dropped lu = false /\ (arr lu < arr l)%nat).
Proof.
  intros Hwf HR HQ Hl.
  destruct (quiescent_thread _ _ _ _ _ Hwf HR HQ Hl) as [Hf|[Hpc [Hin [Hg Ha]]]]; [left; exact Hf|right].
  repeat split; auto.
  pose proof (R_inv _ _ _ Hwf HR) as HI.
  pose proof (T_cpos _ _ _ (I_thrd _ _ HI t l Hl) Ha) as Hc.
  rewrite (I_cnt _ _ HI) in Hc. unfold num_pending in Hc.
  destruct (sum_pos_ex (pending (generation (gl s))) (thr s)) as [u [lu [Hu Hp]]]; [lia|].
  exists u, lu. unfold pending in Hp.
  destruct (dropped lu) eqn:Hd; [lia|].
  destruct (Z.eqb_spec (Z.of_nat (arr lu)) (generation (gl s) + 1)) as [E|E]; [lia|].
  pose proof (T_le _ _ _ (I_thrd _ _ HI u lu Hu)).
  repeat split; auto; [|lia].
  destruct (quiescent_thread _ _ _ _ _ Hwf HR HQ Hu) as [Hf|[_ [_ [_ Ha']]]]; [exact Hf|contradiction].
Qed.

(* when every participant that has not dropped has made as many arrivals as t, t is not left behind *)
Lemma released_when_all_arrived n progs s t l : wf_prog n progs = true -> R n progs s -> quiescentB s ->
  nth_error (thr s) t = Some l ->
  (forall u lu, nth_error (thr s) u = Some lu -> dropped lu = false -> (arr l <= arr lu)%nat) ->
  fin l = true.
Proof.
  intros Hwf HR HQ Hl Hall.
  destruct (quiescent_shape _ _ _ _ _ Hwf HR HQ Hl) as [Hf|[_ [_ [_ [u [lu [Hu [_ [Hd Hlt]]]]]]]]]; [exact Hf|].
  specialize (Hall u lu Hu Hd). lia.
Qed.

Lemma fin_todo l : fin l = true -> todo l = [].
Proof. unfold fin, todo. destruct (at_ l); try discriminate. destruct (prog l); [reflexivity|discriminate]. Qed.

(* generation after generation: if every participant performs the same number K of generations
   unless it drops out earlier, a state in which nothing moves is one in which everybody finished *)
Lemma generation_completes n progs K s : wf_prog n progs = true -> balanced K progs = true ->
  R n progs s -> quiescentB s -> all_fin glob loc fin s = true.
Proof.
  intros Hwf Hb HR HQ. unfold all_fin. apply forallb_forall. intros l Hin.
  apply In_nth_error in Hin. destruct Hin as [t Hl].
  destruct (quiescent_shape _ _ _ _ _ Hwf HR HQ Hl) as [Hf|[_ [_ [_ [u [lu [Hu [Hfu [Hd Hlt]]]]]]]]]; [exact Hf|exfalso].
  pose proof (R_inv _ _ _ Hwf HR) as HI.
  unfold balanced in Hb. rewrite forallb_forall in Hb.
  destruct (arrivals_count_ops _ _ _ _ _ Hwf HR Hu) as [Pu Lu].
  destruct (arrivals_count_ops _ _ _ _ _ Hwf HR Hl) as [Pt Lt].
  pose proof (T_hasdrop _ _ _ (I_thrd _ _ HI u lu Hu) Hd) as Hhd.
  rewrite (fin_todo _ Hfu) in *. cbn in Hhd, Lu.
  pose proof (Hb _ (nth_error_In _ _ Pu)) as Bu. rewrite Hhd in Bu. apply Nat.eqb_eq in Bu.
  pose proof (Hb _ (nth_error_In _ _ Pt)) as Bt.
  assert (length (prog0 l) <= K)%nat.
  { destruct (has_drop (prog0 l)); [apply Nat.leb_le in Bt|apply Nat.eqb_eq in Bt]; lia. }
  lia.
Qed.

(* ---------- bounded work: without spurious wake-ups every run is finite ---------- *)
Definition wpc (p : pc) : nat :=
  match p with
  | Idle => 0 | B_lock _ => 5 | B_sleep => 4 | B_woken => 3 | B_notify => 2 | B_unlock => 1
  end%nat.
Definition wloc (l : loc) : nat := (6 * length (prog l) + wpc (at_ l))%nat.
Definition mu (s : sysB) : nat := list_sum (map wloc (thr s)).
Definition no_spurious (c : nat) : bool := negb (Nat.eqb c 1).

Lemma mu_dec s t c : Inv (gl s) (thr s) -> no_spurious c = true -> enabledB s t c ->
  (mu (stepB s (t, c)) < mu s)%nat.
Proof.
  intros HI Hc [l [r [Hl Hs]]]. destruct r as [[g' l'] es].
  unfold step, sys_step. rewrite Hl, Hs. cbn [fst]. unfold mu. cbn [gl thr].
  apply (sum_step_dec wloc wloc (thr s) t l l' Hl); [intros; lia|].
  pose proof (I_thrd _ _ HI t l Hl) as [_ _ _ Tlg _ Tnt _ _ _ _ _].
  unfold no_spurious in Hc. apply negb_true_iff in Hc.
  destruct l as [pr p lg ar dr p0]. unfold wloc.
  unfold tstep in Hs. cbn [at_ prog lgen arr dropped prog0] in *.
  destruct p.
  - destruct pr; [discriminate|]. inversion Hs; subst. cbn. lia.
  - destruct (mtx (gl s)); [discriminate|].
    destruct (dec (count (gl s)) =? 0); [inversion Hs; subst; cbn; lia|].
    inversion Hs; subst. cbn [prog at_]. destruct (pred _ _); cbn; lia.
  - inversion Hs; subst. cbn. lia.
  - inversion Hs; subst. cbn. lia.
  - (* the wake-up step under a non-spurious choice: the thread was notified, so its generation has passed *)
    rewrite Hc, orb_false_r in Hs.
    destruct (mem t (sleepers (gl s))) eqn:Hm; [discriminate|]. cbn [negb] in Hs.
    destruct (mtx (gl s)); [discriminate|]. inversion Hs; subst. cbn [prog at_].
    assert (~ In t (sleepers (gl s))) as Hnin by (intros Hin; apply mem_In in Hin; congruence).
    specialize (Tnt eq_refl Hnin). specialize (Tlg eq_refl).
    unfold pred. destruct (Z.eqb_spec lg (generation (gl s))); [lia|]. cbn. lia.
  - inversion Hs; subst. cbn. lia.
Qed.

Lemma bounded_work n progs s sc : wf_prog n progs = true -> R n progs s ->
  sched_ok no_spurious sc -> (moves glob loc tstep s sc <= mu s)%nat.
Proof.
  intros Hwf HR Hok. eapply (moves_le_mu glob loc tstep mu Inv Inv_step no_spurious); eauto.
  - intros s0 t c. apply mu_dec.
  - apply (R_inv _ _ _ Hwf HR).
Qed.

(* ---------- every run without spurious wake-ups ends, and ends well ---------- *)
From GV Require Import Progress.

Lemma tstep_choice t c g l : c <> 1%nat -> tstep t c g l = tstep t 0 g l.
Proof.
  intros Hc. unfold tstep. destruct (at_ l); try reflexivity.
  destruct (Nat.eqb_spec c 1); [contradiction|reflexivity].
Qed.

Lemma settled_quiescent s : settled glob loc tstep no_spurious s <-> quiescentB s.
Proof.
  unfold settled, quiescent, no_spurious. split; intros H t c Hc.
  - apply H. apply negb_true_iff, Nat.eqb_neq. exact Hc.
  - apply H. apply negb_true_iff, Nat.eqb_neq in Hc. exact Hc.
Qed.

Lemma pick_move s : (exists t c, no_spurious c = true /\ enabledB s t c) \/ settled glob loc tstep no_spurious s.
Proof.
  destruct (enabled_choice_dec glob loc tstep s 0) as [[t He]|Hn].
  - left. exists t, 0%nat. split; [reflexivity|exact He].
  - right. intros t c Hc [l [r [Hl Hs]]]. apply (Hn t). exists l, r. split; [exact Hl|].
    rewrite <- Hs. symmetry. apply tstep_choice.
    unfold no_spurious in Hc. apply negb_true_iff, Nat.eqb_neq in Hc. exact Hc.
Qed.

(* from every reachable state of a well-formed program a quiescent state is reached by a schedule
   of at most mu(s) work-choices without any spurious wake-up *)
Lemma eventually_settles n progs s : wf_prog n progs = true -> R n progs s ->
  exists sc, sched_ok no_spurious sc /\ (length sc <= mu s)%nat /\
             R n progs (runB s sc) /\ quiescentB (runB s sc).
Proof.
  intros Hwf HR.
  destruct (settles glob loc tstep mu Inv Inv_step no_spurious (fun s0 t c => mu_dec s0 t c) pick_move s (R_inv _ _ _ Hwf HR))
    as [sc [Hok [Hlen Hset]]].
  exists sc. repeat split; auto.
  - destruct HR as [sc0 ->]. exists (sc0 ++ sc). symmetry. apply run_app.
  - apply settled_quiescent. exact Hset.
Qed.

(* ... and when every participant performs the same number K of generations unless it drops out
   earlier, that state has every thread finished: every generation completes, every waiter returns *)
Lemma eventually_finishes n progs K s : wf_prog n progs = true -> balanced K progs = true -> R n progs s ->
  exists sc, sched_ok no_spurious sc /\ (length sc <= mu s)%nat /\ all_fin glob loc fin (runB s sc) = true.
Proof.
  intros Hwf Hb HR.
  destruct (eventually_settles n progs s Hwf HR) as [sc [Hok [Hlen [HR' HQ]]]].
  exists sc. repeat split; auto. apply (generation_completes n progs K); auto.
Qed.

(* the last arriver's bump / re-arm / notify triple is under the mutex: the step that emits
   notify_all is taken by the owner of the mutex *)
Lemma notify_under_mutex n progs s t c l g' l' es : wf_prog n progs = true -> R n progs s ->
  nth_error (thr s) t = Some l -> tstep t c (gl s) l = Some (g', l', es) ->
  In (E K_NOTIFY_ALL O_CV 0) es -> mtx (gl s) = Some t /\ mtx g' = Some t.
Proof.
  intros Hwf HR Hl Hs Hin. pose proof (I_owner _ _ (R_inv _ _ _ Hwf HR) t) as HO.
  rewrite (pcof_at _ _ _ Hl) in HO.
  destruct l as [pr p lg ar dr p0]. step_cases Hs; cbn in Hin;
    repeat (destruct Hin as [Hin|Hin]; try discriminate); try contradiction.
  cbn in *. split; apply HO; reflexivity.
Qed.
