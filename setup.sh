#!/bin/sh
# Offline build of the framework: full .vo build of the Coq development, extraction + OCaml model drivers.
set -e
cd "$(dirname "$0")"
python3 - <<'PY'
import sys, os
sys.path.insert(0, 'lib')
import core
core.coq_prepare()
ok, log = core.coq_make(core.coq_all_targets(), timeout=3000)
print(log[-3000:])
if not ok:
    sys.exit('coq build failed')
import glob
for f in sorted(glob.glob('lib/comp_*.py')):
    comp = core.component(os.path.basename(f)[5:-3])
    exe, log = core.build_model_driver(comp)
    print(comp.NAME, 'model driver:', exe)
    if exe is None:
        print(log[-2000:]); sys.exit('model driver build failed')
PY
