#!/bin/sh
# Offline build of the framework: full .vo build of the Coq development needed by the claimed
# properties (props/*.json), extraction + OCaml model drivers of their components.
set -e
cd "$(dirname "$0")"
python3 - <<'PY'
import sys, os, json, glob
sys.path.insert(0, 'lib')
import core
core.coq_prepare()
targets, comps = [], []
for f in sorted(glob.glob('props/*.json')):
    s = json.load(open(f))
    if not s.get('claimed'):
        continue
    targets.append(s['properties_file'][:-2] + '.vo')
    for c in s['components']:
        if c not in comps:
            comps.append(c)
targets += ['Common/Lockset.vo', 'Common/Enum.vo']
ok, log = core.coq_make(targets, timeout=3000)
print(log[-3000:])
if not ok:
    sys.exit('coq build failed')
for c in comps:
    comp = core.component(c)
    exe, log = core.build_model_driver(comp)
    print(comp.NAME, 'model driver:', exe)
    if exe is None:
        print(log[-2000:]); sys.exit('model driver build failed')
PY
