(* Generic model-side driver.  Compiled once per component with "open <Comp>_model"
   prepended; relies only on the extracted  run_case : z list -> z list list list ->
   (z * z) list -> z list list  and on the extracted constructors of positive / Z. *)
let rec pos_of_int n = if n = 1 then XH else if n land 1 = 0 then XO (pos_of_int (n / 2)) else XI (pos_of_int (n / 2))
let z_of_int n = if n = 0 then Z0 else if n > 0 then Zpos (pos_of_int n) else Zneg (pos_of_int (-n))
let rec int_of_pos = function XH -> 1 | XO p -> 2 * int_of_pos p | XI p -> 2 * int_of_pos p + 1
let int_of_z = function Z0 -> 0 | Zpos p -> int_of_pos p | Zneg p -> - (int_of_pos p)

let words s = List.filter (fun w -> w <> "") (String.split_on_char ' ' (String.trim s))

let parse_thread ws =
  (* ops separated by ";" *)
  let rec go cur acc = function
    | [] -> List.rev (if cur = [] then acc else List.rev cur :: acc)
    | ";" :: r -> go [] (if cur = [] then acc else List.rev cur :: acc) r
    | w :: r -> go (z_of_int (int_of_string w) :: cur) acc r in
  go [] [] ws

let enum_hook : (z list -> z list list list -> z -> z -> (z * z) list list) option ref = ref None

let main () =
  let enum_mode = Array.length Sys.argv > 2 && Sys.argv.(2) = "--enum" in
  let depth = if enum_mode then int_of_string Sys.argv.(3) else 0 in
  let budget = if enum_mode then int_of_string Sys.argv.(4) else 0 in
  let maxn = if enum_mode && Array.length Sys.argv > 5 then int_of_string Sys.argv.(5) else 100000 in
  let ic = open_in Sys.argv.(1) in
  let id = ref 0 and cfg = ref [] and progs = ref [] and sched = ref [] in
  let buf = Buffer.create 65536 in
  (try while true do
    let line = input_line ic in
    match words line with
    | "case" :: n :: _ -> id := int_of_string n; cfg := []; progs := []; sched := []
    | "cfg" :: r -> cfg := List.map (fun w -> z_of_int (int_of_string w)) r
    | "thread" :: r -> progs := parse_thread r :: !progs
    | "sched" :: r ->
        sched := List.map (fun tc -> match String.split_on_char ':' tc with
                   | [t; c] -> (z_of_int (int_of_string t), z_of_int (int_of_string c))
                   | _ -> failwith "bad sched") r
    | "end" :: _ ->
        Buffer.add_string buf (Printf.sprintf "CASE %d\n" !id);
        if enum_mode then begin
          (match !enum_hook with
           | None -> failwith "this model has no enum_case"
           | Some f ->
             let scheds = f !cfg (List.rev !progs) (z_of_int depth) (z_of_int budget) in
             let k = ref 0 in
             List.iter (fun sc ->
               if !k < maxn then begin
                 incr k;
                 Buffer.add_string buf ("S " ^ String.concat " " (List.map (fun (t, c) ->
                   Printf.sprintf "%d:%d" (int_of_z t) (int_of_z c)) sc) ^ "\n") end) scheds;
             Buffer.add_string buf (Printf.sprintf "N %d\n" (List.length scheds)))
        end else
        let out = run_case !cfg (List.rev !progs) !sched in
        List.iter (fun l ->
          Buffer.add_string buf (String.concat " " (List.map (fun z -> string_of_int (int_of_z z)) l));
          Buffer.add_char buf '\n') out;
        if Buffer.length buf > 60000 then (print_string (Buffer.contents buf); Buffer.clear buf)
    | _ -> ()
  done with End_of_file -> ());
  print_string (Buffer.contents buf)

