let () = enum_hook := Some enum_case
