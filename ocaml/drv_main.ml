let () = main ()
